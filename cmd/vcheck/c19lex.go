package main

import (
	"fmt"
	"path/filepath"
	"strings"
	"sync"

	"github.com/antlr4-go/antlr/v4"
	parser "github.com/openfga/language/pkg/go/gen"

	"verif/internal/core"
	"verif/internal/g4"
	"verif/internal/gen"
)

// C19 layer 6: the generated lexer behaves as OpenFGALexer.g4 on disk prescribes. Every token the real generated
// lexer emits (type, extent, channel) and every place where it reports a recognition error is compared with an
// executable reading of the grammar (internal/g4/lexsem.go): longest match over the rules of the current mode,
// first rule on ties, modes followed through pushMode / popMode.

var (
	lexSpecOnce sync.Once
	lexSpecVal  *g4.LexSpec
	lexSpecErr  error
)

func lexSpec() (*g4.LexSpec, error) {
	lexSpecOnce.Do(func() {
		lexSpecVal, lexSpecErr = g4.ReadLexSpec(filepath.Join(gen.RepoDir(), "OpenFGALexer.g4"))
		if lexSpecErr == nil {
			for _, r := range lexSpecVal.Rules {
				if r.Skip || r.More {
					lexSpecErr = fmt.Errorf("rule %s uses skip/more, which the monitor does not model", r.Name)
				}
			}
		}
	})
	return lexSpecVal, lexSpecErr
}

type realTok struct {
	typ, start, stop int
	hidden           bool
}

func realLex(txt string) (toks []realTok, errs int, names []string) {
	lx := parser.NewOpenFGALexer(antlr.NewInputStream(txt))
	le := &countingListener{}
	lx.RemoveErrorListeners()
	lx.AddErrorListener(le)
	for {
		t := lx.NextToken()
		if t.GetTokenType() == antlr.TokenEOF {
			break
		}
		toks = append(toks, realTok{t.GetTokenType(), t.GetStart(), t.GetStop(), t.GetChannel() != antlr.TokenDefaultChannel})
		if len(toks) > 100000 {
			break
		}
	}
	return toks, le.n, lx.SymbolicNames
}

func lexerConforms(run *core.Run, spec *g4.LexSpec, txt string, origin string) {
	c := &core.Case{Kind: "lexer-text", DSL: txt, Extra: map[string]string{"origin": origin}}
	run.Guard(c, func() { lexerConforms1(run, spec, txt, c) })
}

func lexerConforms1(run *core.Run, spec *g4.LexSpec, txt string, c *core.Case) {
	in := []rune(txt)
	toks, errs, names := realLex(txt)
	m := spec.NewRun(in)
	modes := []string{"DEFAULT_MODE"}
	pos := 0
	gaps := 0
	run.Eval(1)
	show := func(a, b int) string {
		if b > len(in) {
			b = len(in)
		}
		if a > b {
			a = b
		}
		return fmt.Sprintf("%q", string(in[a:b]))
	}
	for i := 0; i <= len(toks); i++ {
		mode := modes[len(modes)-1]
		next := len(in)
		if i < len(toks) {
			next = toks[i].start
		}
		if next < pos {
			run.Violation("lexer-tokens-overlap", c, "tokens in input order", fmt.Sprintf("token %d starts at %d, before %d", i, next, pos))
			return
		}
		if next > pos {
			// characters no token covers: the generated lexer reported a recognition error here
			end, rule, und := m.Match(mode, pos)
			if und {
				run.Count("lexer_inputs_left_at_a_non_greedy_rule", 1)
				return
			}
			if end > pos {
				run.Violation("generated-lexer-rejects-what-the-grammar-lexes", c,
					fmt.Sprintf("OpenFGALexer.g4, mode %s, offset %d: rule %s matches %s", mode, pos, rule.Name, show(pos, end)),
					fmt.Sprintf("generated lexer emits no token for offsets %d..%d (%s), %d recognition errors", pos, next-1, show(pos, next), errs))
				return
			}
			gaps++
			run.Count("lexer_error_gaps_checked", 1)
			pos = next
			if i == len(toks) {
				break
			}
		}
		if i == len(toks) {
			break
		}
		t := toks[i]
		end, rule, und := m.Match(mode, pos)
		if und {
			run.Count("lexer_inputs_left_at_a_non_greedy_rule", 1)
			return
		}
		name := fmt.Sprintf("<%d>", t.typ)
		if t.typ > 0 && t.typ < len(names) {
			name = names[t.typ]
		}
		got := fmt.Sprintf("generated lexer: token %s %s at offsets %d..%d, hidden=%v", name, show(t.start, t.stop+1), t.start, t.stop, t.hidden)
		if end == pos {
			run.Violation("generated-lexer-emits-a-token-the-grammar-does-not", c, fmt.Sprintf("OpenFGALexer.g4, mode %s, offset %d: no rule matches", mode, pos), got)
			return
		}
		if end != t.stop+1 || rule.Type != name || rule.Hidden != t.hidden {
			run.Violation("generated-lexer-token-differs-from-the-grammar", c,
				fmt.Sprintf("OpenFGALexer.g4, mode %s, offset %d: rule %s gives token %s %s (to offset %d), hidden=%v", mode, pos, rule.Name, rule.Type, show(pos, end), end-1, rule.Hidden), got)
			return
		}
		run.Count("lexer_tokens_checked", 1)
		run.Count("lexer_rule_seen:"+rule.Name, 1)
		if rule.Pop && len(modes) > 1 {
			modes = modes[:len(modes)-1]
		}
		if rule.Push != "" {
			modes = append(modes, rule.Push)
		}
		pos = end
	}
	if (gaps > 0) != (errs > 0) {
		run.Violation("lexer-errors-and-uncovered-text-disagree", c, "a recognition error exactly where text is covered by no token", fmt.Sprintf("%d uncovered stretches, %d errors reported", gaps, errs))
		return
	}
	run.Count("lexer_inputs_checked", 1)
}

// lexerWorkload: exhaustive short strings over the grammar's boundary alphabet in both modes, and seeded random
// strings mixing those characters with the grammar's own literals.
func lexerWorkload(run *core.Run, spec *g4.LexSpec) {
	alpha := spec.Alphabet()
	run.Count("lexer_alphabet", int64(len(alpha)))
	prefixes := []string{"", "condition "}
	var short []string
	for _, a := range alpha {
		short = append(short, string(a))
		for _, b := range alpha {
			short = append(short, string([]rune{a, b}))
		}
	}
	core.Parallel(len(short), func(i int) {
		for _, p := range prefixes {
			lexerConforms(run, spec, p+short[i], "exhaustive length <= 2")
		}
	})
	run.Count("lexer_exhaustive_strings", int64(len(short)*len(prefixes)))
	words := []string{"and", "or", "but not", "but  not", "from", "module", "model", "schema", "1.1", "extend", "type", "condition", "relations", "relation", "define", "with",
		"map", "list", "bool", "string", "int", "uint", "double", "duration", "timestamp", "ipaddress", "true", "false", "null", "in", "0x", "1e5", "1.5e-3", ".5", "12u", "0x1Fu",
		"\"a\\n\"", "'x'", "r\"\\\"", "b'y'", "\"\\x4g\"", "\"\\u12\"", "\"\\777\"", "//", "// c\n", "\r\n", "\n  ", " \n", "\f", "\r", "a-b", "a.b", "a/b", "a-", "_1", "a..b", "a.-b", "==", "!=", "<=", ">=", "&&", "||"}
	n := run.N(30000, 600000)
	core.Parallel(n, func(i int) {
		r := run.Rng("c19-lex", i)
		var sb strings.Builder
		if r.Intn(3) == 0 {
			sb.WriteString("condition ")
		}
		k := 1 + r.Intn(12)
		for j := 0; j < k; j++ {
			switch r.Intn(5) {
			case 0, 1:
				sb.WriteString(words[r.Intn(len(words))])
			case 2:
				sb.WriteByte(' ')
			default:
				sb.WriteRune(alpha[r.Intn(len(alpha))])
			}
		}
		lexerConforms(run, spec, sb.String(), "random over the boundary alphabet")
		run.SampleAt(i, n/2+1, func() any { return sb.String() })
	})
}
