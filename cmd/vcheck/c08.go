package main

import (
	"bufio"
	"bytes"
	"encoding/json"
	"fmt"
	"math"
	"os"
	"os/exec"
	"path/filepath"
	"sort"
	"strconv"
	"strings"
	"sync"
	"sync/atomic"
	"time"

	openfgav1 "github.com/openfga/api/proto/openfga/v1"
	"github.com/openfga/language/pkg/go/graph"
	"github.com/openfga/language/pkg/go/transformer"

	"verif/internal/core"
	"verif/internal/gen"
)

// C08: no public entry point panics or hangs; syntax errors are always reported.

func init() { register("C08", runC08, replayC08, 200) }

// ---------- scaled families for the work bound ----------

type stepFamily struct {
	name  string
	entry string
	warm  int
	sizes []int
	known string                    // id of the known finding this family is a signature of ("" = none)
	make  func(n int) (int, func()) // returns the input length and the call
}

const (
	famHdr  = "model\n  schema 1.1\n"
	famRel  = famHdr + "type t\n  relations\n    define r: "
	famCond = famHdr + "condition c(x: int) {\n  "
)

// units of the lexer vocabulary: literals, character classes, two-token units
var famUnits = []string{":", ",", "<", ">", "[", "]", "(", ")", " ", "\t", "\f", "\n", "\r", "\r\n", "#", "and", "or", "but not", "from", "module", "model", "schema", "1.1", "extend", "type", "condition", "relations", "relation", "define", "with", "==", "!=", "in", "<=", ">=", "&&", "||", "{", "}", ".", "-", "!", "?", "+", "*", "/", "%", "true", "false", "null", "//", "1", "1.5", "1u", "\"", "'", "\"\"\"", "b\"", "r'", "a", "a.", "a/", "_", "é", "$", "\\", "\x00", " #", "\n#", "a ", "a\n", "( ", "[a", "a,", "a or ", "a and ", "(a or ", ") ", "x: int, ", "list<", "\"a\" ", "' ", "a from ", "[a] or ", "type a\n", "define a: b\n", " with c", "a#", "a:*", "a:", "\n  ", " \n", "\n\t", "\f\n", "\r\r"}

var (
	famOnce sync.Once
	famMap  map[string]*stepFamily
)

func dslCall(entry string, s string) func() {
	switch entry {
	case "modular":
		return func() { transformer.TransformModularDSLToProto(s) }
	case "merge":
		return func() {
			transformer.TransformModuleFilesToModel([]transformer.ModuleFile{{Name: "a.fga", Contents: s}}, "1.2")
		}
	}
	return func() { transformer.TransformDSLToProto(s) }
}

func stepFamilies() map[string]*stepFamily {
	famOnce.Do(func() {
		famMap = map[string]*stepFamily{}
		add := func(f *stepFamily) {
			if f.warm == 0 {
				f.warm = 50
			}
			famMap[f.name] = f
		}
		rep := func(u string, n int) string {
			k := n / len(u)
			if k < 1 {
				k = 1
			}
			return strings.Repeat(u, k)
		}
		for _, u := range famUnits {
			u := u
			q := strconv.Quote(u)
			known := ""
			sizes := []int{100, 200, 400, 800}
			if strings.Contains(u, "\f") || strings.Contains(u, "\r") {
				// units of finding K1 (form feed / CR runs): sizes capped so that the cubic growth stays affordable
				known = "K1"
				sizes = []int{40, 80, 160}
			}
			ctx := map[string]string{"bare": "", "hdr": famHdr, "rel": famRel, "relbr": famRel + "[", "param": famHdr + "condition c(", "cond": famCond}
			for cn, prefix := range ctx {
				prefix := prefix
				add(&stepFamily{name: "dsl/" + cn + "+" + q, entry: "TransformDSLToProto", sizes: sizes, known: known, make: func(n int) (int, func()) {
					s := prefix + rep(u, n)
					return len(s), dslCall("", s)
				}})
			}
		}
		dslFam := func(name string, gen func(n int) string) {
			add(&stepFamily{name: "dsl/" + name, entry: "TransformDSLToProto", sizes: []int{100, 200, 400, 800}, make: func(n int) (int, func()) {
				s := gen(n)
				return len(s), dslCall("", s)
			}})
			add(&stepFamily{name: "merge/" + name, entry: "TransformModuleFilesToModel", sizes: []int{100, 200, 400}, make: func(n int) (int, func()) {
				s := strings.Replace(gen(n), famHdr, "module m\n", 1)
				return len(s), dslCall("merge", s)
			}})
		}
		dslFam("nested-parentheses", func(n int) string { return famRel + strings.Repeat("(", n/2) + "a" + strings.Repeat(")", n/2) })
		dslFam("nested-parentheses-or", func(n int) string { return famRel + strings.Repeat("(a or ", n/8) + "a" + strings.Repeat(")", n/8) })
		dslFam("unbalanced-open", func(n int) string { return famRel + strings.Repeat("(", n) + "a" })
		dslFam("unbalanced-close", func(n int) string { return famRel + "a" + strings.Repeat(")", n) })
		dslFam("union-chain", func(n int) string { return famRel + "a" + strings.Repeat(" or a", n/5) })
		dslFam("intersection-chain", func(n int) string { return famRel + "a" + strings.Repeat(" and a", n/6) })
		dslFam("mixed-chain", func(n int) string { return famRel + "a" + strings.Repeat(" or a and a", n/11) })
		dslFam("blank-lines", func(n int) string { return famHdr + strings.Repeat("\n", n) + "type a" })
		dslFam("space-lines", func(n int) string { return famHdr + strings.Repeat("  \n", n/3) + "type a" })
		dslFam("tab-lines", func(n int) string { return famHdr + strings.Repeat("\t\n", n/2) + "type a" })
		dslFam("comment-lines", func(n int) string { return famHdr + strings.Repeat("# c\n", n/4) + "type a" })
		dslFam("many-types", func(n int) string { return famHdr + strings.Repeat("type a\n", n/7) })
		dslFam("many-relations", func(n int) string {
			var sb strings.Builder
			sb.WriteString(famHdr + "type t\n  relations\n")
			for i := 0; i < n/22; i++ {
				fmt.Fprintf(&sb, "    define r%d: [user]\n", i)
			}
			return sb.String()
		})
		dslFam("same-relation-many-times", func(n int) string {
			return famHdr + "type t\n  relations\n" + strings.Repeat("    define r: [user]\n", n/21)
		})
		dslFam("many-restrictions", func(n int) string { return famRel + "[" + strings.Repeat("user, ", n/6) + "user]" })
		dslFam("many-restrictions-multiline", func(n int) string { return famRel + "[" + strings.Repeat("user,\n", n/6) + "user]" })
		dslFam("many-parameters", func(n int) string {
			var sb strings.Builder
			sb.WriteString(famHdr + "condition c(")
			for i := 0; i < n/10; i++ {
				fmt.Fprintf(&sb, "p%d: int, ", i)
			}
			sb.WriteString("z: int) {\n  x\n}")
			return sb.String()
		})
		dslFam("many-conditions", func(n int) string {
			var sb strings.Builder
			sb.WriteString(famHdr)
			for i := 0; i < n/28; i++ {
				fmt.Fprintf(&sb, "condition c%d(x: int) {\n  x\n}\n", i)
			}
			return sb.String()
		})
		dslFam("long-identifier", func(n int) string { return famHdr + "type " + strings.Repeat("a", n) })
		dslFam("long-dotted-identifier", func(n int) string { return famHdr + "type a" + strings.Repeat(".a", n/2) })
		dslFam("long-expression", func(n int) string { return famCond + strings.Repeat("x == 1 && ", n/10) + "x\n}" })
		dslFam("unterminated-string", func(n int) string { return famCond + "\"" + strings.Repeat("a", n) })
		dslFam("many-trailing-comments", func(n int) string { return famHdr + strings.Repeat("type a #c\n", n/10) })
		dslFam("from-chain", func(n int) string { return famRel + "a" + strings.Repeat(" from a", n/7) })
		dslFam("with-chain", func(n int) string { return famRel + "[a" + strings.Repeat(" with c", n/7) + "]" })
		dslFam("extend-many", func(n int) string { return "module m\n" + strings.Repeat("extend type a\n", n/14) })

		// several cooperating module files
		mergeFam := func(name string, gen func(n int) []transformer.ModuleFile) {
			add(&stepFamily{name: "mergeset/" + name, entry: "TransformModuleFilesToModel", sizes: []int{10, 20, 40, 80}, warm: 3, make: func(n int) (int, func()) {
				fs := gen(n)
				l := 0
				for _, f := range fs {
					l += len(f.Contents) + len(f.Name)
				}
				return l, func() { transformer.TransformModuleFilesToModel(fs, "1.2") }
			}})
		}
		mergeFam("many-files", func(n int) []transformer.ModuleFile {
			var fs []transformer.ModuleFile
			for i := 0; i < n; i++ {
				fs = append(fs, transformer.ModuleFile{Name: fmt.Sprintf("f%d.fga", i), Contents: fmt.Sprintf("module m%d\ntype t%d\n  relations\n    define r: [t%d]\n", i%5, i, i)})
			}
			return fs
		})
		mergeFam("many-extensions-of-one-type", func(n int) []transformer.ModuleFile {
			fs := []transformer.ModuleFile{{Name: "base.fga", Contents: "module base\ntype user\ntype doc\n  relations\n    define r: [user]\n"}}
			for i := 0; i < n; i++ {
				fs = append(fs, transformer.ModuleFile{Name: fmt.Sprintf("e%d.fga", i), Contents: fmt.Sprintf("module e%d\nextend type doc\n  relations\n    define x%d: [user] or r\n", i, i)})
			}
			return fs
		})
		mergeFam("many-duplicate-types", func(n int) []transformer.ModuleFile {
			var fs []transformer.ModuleFile
			for i := 0; i < n; i++ {
				fs = append(fs, transformer.ModuleFile{Name: fmt.Sprintf("d%d.fga", i), Contents: "module d\ntype user\ntype doc\n\ncondition c(x: int) {\n  x < 1\n}\n"})
			}
			return fs
		})
		mergeFam("many-clashing-extensions", func(n int) []transformer.ModuleFile {
			fs := []transformer.ModuleFile{{Name: "base.fga", Contents: "module base\ntype user\ntype doc\n  relations\n    define r: [user]\n"}}
			for i := 0; i < n; i++ {
				fs = append(fs, transformer.ModuleFile{Name: fmt.Sprintf("e%d.fga", i), Contents: "module e\nextend type doc\n  relations\n    define clash: [user]\nextend type nosuch\n  relations\n    define q: [user]\n"})
			}
			return fs
		})
		// model-level entry points
		modelFam := func(name string, known string, sizes []int, mk func(n int) *openfgav1.AuthorizationModel) {
			for _, ep := range []string{"TransformJSONProtoToDSL", "TransformJSONStringToDSL", "NewAuthorizationModelGraph", "Build"} {
				ep := ep
				kn := known
				if ep != "Build" {
					kn = ""
				}
				add(&stepFamily{name: "model/" + name + "/" + ep, entry: ep, warm: 5, sizes: sizes, known: kn, make: func(n int) (int, func()) {
					m := mk(n)
					js := modelJSON(m)
					switch ep {
					case "TransformJSONProtoToDSL":
						return len(js), func() { transformer.TransformJSONProtoToDSL(m) }
					case "TransformJSONStringToDSL":
						return len(js), func() { transformer.TransformJSONStringToDSL(js) }
					case "NewAuthorizationModelGraph":
						return len(js), func() {
							if g, err := graph.NewAuthorizationModelGraph(m); err == nil {
								g.GetDOT()
							}
						}
					}
					return len(js), func() { graph.NewWeightedAuthorizationModelGraphBuilder().Build(m) }
				}})
			}
		}
		std := []int{25, 50, 100, 200}
		direct := func(types ...string) *openfgav1.RelationMetadata {
			md := &openfgav1.RelationMetadata{}
			for _, t := range types {
				md.DirectlyRelatedUserTypes = append(md.DirectlyRelatedUserTypes, gen.RefType(t))
			}
			return md
		}
		objType := func(rels map[string]*openfgav1.Userset, md map[string]*openfgav1.RelationMetadata) *openfgav1.AuthorizationModel {
			return &openfgav1.AuthorizationModel{SchemaVersion: "1.1", TypeDefinitions: []*openfgav1.TypeDefinition{{Type: "user"},
				{Type: "t", Relations: rels, Metadata: &openfgav1.Metadata{Relations: md}}}}
		}
		modelFam("deep-union-left", "", std, func(n int) *openfgav1.AuthorizationModel { return gen.DeepModel(n, 0) })
		modelFam("deep-difference-right", "", std, func(n int) *openfgav1.AuthorizationModel { return gen.DeepModel(n, 1) })
		modelFam("deep-intersection-right", "", std, func(n int) *openfgav1.AuthorizationModel { return gen.DeepModel(n, 2) })
		modelFam("many-types-modular", "", std, func(n int) *openfgav1.AuthorizationModel {
			m := &openfgav1.AuthorizationModel{SchemaVersion: "1.2"}
			for i := 0; i < n; i++ {
				m.TypeDefinitions = append(m.TypeDefinitions, &openfgav1.TypeDefinition{Type: fmt.Sprintf("t%d", n-i), Metadata: &openfgav1.Metadata{Module: fmt.Sprintf("m%d", i%7), SourceInfo: &openfgav1.SourceInfo{File: "f"}}})
			}
			return m
		})
		modelFam("many-relations", "", std, func(n int) *openfgav1.AuthorizationModel {
			rels, md := map[string]*openfgav1.Userset{}, map[string]*openfgav1.RelationMetadata{}
			for i := 0; i < n; i++ {
				rels[fmt.Sprintf("r%d", i)] = gen.This()
				md[fmt.Sprintf("r%d", i)] = direct("user")
			}
			return objType(rels, md)
		})
		modelFam("computed-chain", "", std, func(n int) *openfgav1.AuthorizationModel {
			rels, md := map[string]*openfgav1.Userset{"r0": gen.This()}, map[string]*openfgav1.RelationMetadata{"r0": direct("user")}
			for i := 1; i < n; i++ {
				rels[fmt.Sprintf("r%d", i)] = gen.Computed(fmt.Sprintf("r%d", i-1))
			}
			return objType(rels, md)
		})
		modelFam("tuple-ring", "", std, func(n int) *openfgav1.AuthorizationModel {
			rels, md := map[string]*openfgav1.Userset{"p": gen.This()}, map[string]*openfgav1.RelationMetadata{"p": direct("t")}
			for i := 0; i < n; i++ {
				rels[fmt.Sprintf("r%d", i)] = gen.Union(gen.This(), gen.TTU(fmt.Sprintf("r%d", (i+1)%n), "p"))
				md[fmt.Sprintf("r%d", i)] = direct("user")
			}
			return objType(rels, md)
		})
		modelFam("dense-tuple-cycles", "K5", []int{25, 50, 100, 200}, func(n int) *openfgav1.AuthorizationModel {
			rels, md := map[string]*openfgav1.Userset{"p": gen.This()}, map[string]*openfgav1.RelationMetadata{"p": direct("t")}
			for i := 0; i < n; i++ {
				rels[fmt.Sprintf("r%d", i)] = gen.Union(gen.This(), gen.TTU(fmt.Sprintf("r%d", (i+1)%n), "p"), gen.TTU(fmt.Sprintf("r%d", (i*7+3)%n), "p"), gen.TTU(fmt.Sprintf("r%d", (i*5+2)%n), "p"))
				md[fmt.Sprintf("r%d", i)] = direct("user")
			}
			return objType(rels, md)
		})
		// reconverging DAGs: every level is reachable through two paths (a visited set keeps this linear)
		ladder := []int{8, 16, 32, 64}
		modelFam("computed-ladder", "", ladder, func(n int) *openfgav1.AuthorizationModel {
			rels, md := map[string]*openfgav1.Userset{}, map[string]*openfgav1.RelationMetadata{}
			for i := 0; i < n; i++ {
				a, b2 := fmt.Sprintf("a%03d", i), fmt.Sprintf("b%03d", i)
				if i == n-1 {
					rels[a], rels[b2] = gen.This(), gen.This()
					md[a], md[b2] = direct("user"), direct("user")
					continue
				}
				na, nb := fmt.Sprintf("a%03d", i+1), fmt.Sprintf("b%03d", i+1)
				rels[a] = gen.Union(gen.Computed(na), gen.Computed(nb))
				rels[b2] = gen.Inter(gen.Computed(na), gen.Computed(nb))
			}
			return objType(rels, md)
		})
		modelFam("computed-diamonds", "", ladder, func(n int) *openfgav1.AuthorizationModel {
			rels, md := map[string]*openfgav1.Userset{}, map[string]*openfgav1.RelationMetadata{}
			for i := 0; i < n; i++ {
				a := fmt.Sprintf("a%03d", i)
				if i >= n-2 {
					rels[a] = gen.This()
					md[a] = direct("user")
					continue
				}
				rels[a] = gen.Union(gen.Computed(fmt.Sprintf("a%03d", i+1)), gen.Diff(gen.Computed(fmt.Sprintf("a%03d", i+2)), gen.Computed(fmt.Sprintf("a%03d", i+1))))
			}
			return objType(rels, md)
		})
		modelFam("ttu-ladder", "", ladder, func(n int) *openfgav1.AuthorizationModel {
			rels, md := map[string]*openfgav1.Userset{"p": gen.This()}, map[string]*openfgav1.RelationMetadata{"p": direct("t")}
			for i := 0; i < n; i++ {
				a, b2 := fmt.Sprintf("a%03d", i), fmt.Sprintf("b%03d", i)
				if i == n-1 {
					rels[a], rels[b2] = gen.This(), gen.This()
					md[a], md[b2] = direct("user"), direct("user")
					continue
				}
				na, nb := fmt.Sprintf("a%03d", i+1), fmt.Sprintf("b%03d", i+1)
				rels[a] = gen.Union(gen.TTU(na, "p"), gen.TTU(nb, "p"))
				rels[b2] = gen.Union(gen.This(), gen.TTU(na, "p"), gen.Computed(nb))
				md[b2] = &openfgav1.RelationMetadata{DirectlyRelatedUserTypes: []*openfgav1.RelationReference{gen.RefRel("t", na)}}
			}
			return objType(rels, md)
		})
		modelFam("wide-union", "", std, func(n int) *openfgav1.AuthorizationModel {
			var ch []*openfgav1.Userset
			for i := 0; i < n; i++ {
				ch = append(ch, gen.Computed("a"))
			}
			return objType(map[string]*openfgav1.Userset{"a": gen.This(), "r": gen.Union(ch...)}, map[string]*openfgav1.RelationMetadata{"a": direct("user")})
		})
		modelFam("many-user-types", "", std, func(n int) *openfgav1.AuthorizationModel {
			m := &openfgav1.AuthorizationModel{SchemaVersion: "1.1"}
			md := &openfgav1.RelationMetadata{}
			for i := 0; i < n; i++ {
				m.TypeDefinitions = append(m.TypeDefinitions, &openfgav1.TypeDefinition{Type: fmt.Sprintf("u%d", i)})
				md.DirectlyRelatedUserTypes = append(md.DirectlyRelatedUserTypes, gen.RefType(fmt.Sprintf("u%d", i)))
			}
			m.TypeDefinitions = append(m.TypeDefinitions, &openfgav1.TypeDefinition{Type: "t", Relations: map[string]*openfgav1.Userset{"a": gen.This(), "b": gen.Inter(gen.This(), gen.Computed("a"))},
				Metadata: &openfgav1.Metadata{Relations: map[string]*openfgav1.RelationMetadata{"a": md, "b": md}}})
			return m
		})
		modelFam("ttu-many-parents", "", std, func(n int) *openfgav1.AuthorizationModel {
			m := &openfgav1.AuthorizationModel{SchemaVersion: "1.1", TypeDefinitions: []*openfgav1.TypeDefinition{{Type: "user"}}}
			var parents []*openfgav1.RelationReference
			for i := 0; i < n; i++ {
				tn := fmt.Sprintf("p%d", i)
				parents = append(parents, gen.RefType(tn))
				m.TypeDefinitions = append(m.TypeDefinitions, &openfgav1.TypeDefinition{Type: tn, Relations: map[string]*openfgav1.Userset{"v": gen.This()},
					Metadata: &openfgav1.Metadata{Relations: map[string]*openfgav1.RelationMetadata{"v": direct("user")}}})
			}
			m.TypeDefinitions = append(m.TypeDefinitions, &openfgav1.TypeDefinition{Type: "doc", Relations: map[string]*openfgav1.Userset{"parent": gen.This(), "v": gen.TTU("v", "parent")},
				Metadata: &openfgav1.Metadata{Relations: map[string]*openfgav1.RelationMetadata{"parent": {DirectlyRelatedUserTypes: parents}}}})
			return m
		})
		modelFam("many-conditions", "", std, func(n int) *openfgav1.AuthorizationModel {
			m := &openfgav1.AuthorizationModel{SchemaVersion: "1.1", Conditions: map[string]*openfgav1.Condition{}}
			for i := 0; i < n; i++ {
				cn := fmt.Sprintf("c%d", i)
				m.Conditions[cn] = &openfgav1.Condition{Name: cn, Expression: "x < 1", Parameters: map[string]*openfgav1.ConditionParamTypeRef{"x": {TypeName: openfgav1.ConditionParamTypeRef_TYPE_NAME_INT}}}
			}
			return m
		})
		// fga.mod
		yamlFam := func(name string, gen func(n int) string) {
			add(&stepFamily{name: "yaml/" + name, entry: "TransformModFile", sizes: []int{100, 200, 400, 800}, make: func(n int) (int, func()) {
				s := gen(n)
				return len(s), func() { transformer.TransformModFile(s) }
			}})
		}
		yh := "schema: '1.2'\ncontents:\n"
		yamlFam("many-entries", func(n int) string { return yh + strings.Repeat("  - a.fga\n", n/10) })
		yamlFam("many-bad-entries", func(n int) string { return yh + strings.Repeat("  - ../a\n", n/9) })
		yamlFam("long-path", func(n int) string { return yh + "  - " + strings.Repeat("a/", n/2) + "x.fga\n" })
		yamlFam("percent-escapes", func(n int) string { return yh + "  - \"" + strings.Repeat("%2e", n/3) + ".fga\"\n" })
		yamlFam("dot-dot-run", func(n int) string { return yh + "  - \"" + strings.Repeat("..\\\\", n/4) + "x.fga\"\n" })
		yamlFam("flow-nesting", func(n int) string { return yh + "  - " + strings.Repeat("[", n/2) + strings.Repeat("]", n/2) + "\n" })
		yamlFam("aliases", func(n int) string { return yh + "  - &a a.fga\n" + strings.Repeat("  - *a\n", n/7) })
		yamlFam("long-key", func(n int) string { return strings.Repeat("k", n) + ": 1\n" + yh + "  - a.fga\n" })
		yamlFam("many-documents", func(n int) string { return strings.Repeat("---\n", n/4) + yh + "  - a.fga\n" })
		yamlFam("tabs", func(n int) string { return yh + "  - a.fga" + strings.Repeat("\t", n) + "\n" })
		// JSON text
		jsonFam := func(name string, gen func(n int) string) {
			add(&stepFamily{name: "json/" + name, entry: "TransformJSONStringToDSL", sizes: []int{100, 200, 400, 800}, make: func(n int) (int, func()) {
				s := gen(n)
				return len(s), func() { transformer.TransformJSONStringToDSL(s) }
			}})
		}
		jsonFam("nested-arrays-unknown-field", func(n int) string { return "{\"x\":" + strings.Repeat("[", n/2) + strings.Repeat("]", n/2) + "}" })
		jsonFam("nested-objects-unknown-field", func(n int) string {
			return "{\"x\":" + strings.Repeat("{\"a\":", n/6) + "1" + strings.Repeat("}", n/6) + "}"
		})
		jsonFam("long-string", func(n int) string { return "{\"schema_version\":\"" + strings.Repeat("a", n) + "\"}" })
		jsonFam("escapes", func(n int) string { return "{\"schema_version\":\"" + strings.Repeat("\\u0041", n/6) + "\"}" })
		jsonFam("unterminated", func(n int) string { return "{\"type_definitions\":[" + strings.Repeat("{\"type\":\"a\"},", n/13) })
		jsonFam("nested-union", func(n int) string {
			return "{\"type_definitions\":[{\"type\":\"t\",\"relations\":{\"r\":" + strings.Repeat("{\"union\":{\"child\":[", n/20) + "{\"this\":{}}" + strings.Repeat("]}}", n/20) + "}}]}"
		})
	})
	return famMap
}

func famNames(filter func(*stepFamily) bool) []string {
	var ns []string
	for n, f := range stepFamilies() {
		if filter == nil || filter(f) {
			ns = append(ns, n)
		}
	}
	sort.Strings(ns)
	return ns
}

// ---------- parent side ----------

var (
	coverBinOnce sync.Once
	coverBinPath string
	coverBinErr  error
)

// coverBinary builds the coverage-instrumented driver once per run.
func coverBinary(run *core.Run) (string, error) {
	coverBinOnce.Do(func() { coverBinPath, coverBinErr = buildCoverBinary(run) })
	return coverBinPath, coverBinErr
}

func buildCoverBinary(run *core.Run) (string, error) {
	bin := filepath.Join(core.Root, "bin", "vcheck-cover")
	if e := os.Getenv("VERIF_MODFILE"); e != "" {
		bin = filepath.Join(core.Root, "vcheck-cover")
	}
	pkgs := "verif/cmd/vcheck,github.com/openfga/language/pkg/go/...,github.com/antlr4-go/antlr/v4,gopkg.in/yaml.v3,google.golang.org/protobuf/encoding/protojson,google.golang.org/protobuf/internal/encoding/json"
	cmd := exec.Command("go", goArgs("build", "-tags", "verif", "-cover", "-covermode=atomic", "-coverpkg="+pkgs, "-o", bin, "./cmd/vcheck")...)
	cmd.Dir = srcDir()
	cmd.Env = append(os.Environ(), "GOFLAGS=-mod=mod", "GOPROXY=off", "GOSUMDB=off", "GOTOOLCHAIN=local")
	if out, err := cmd.CombinedOutput(); err != nil {
		return "", fmt.Errorf("%v: %s", err, clipStr(string(out), 1500))
	}
	return bin, nil
}

// totalityStall: how long the index logged by a totality worker may stand still before the input is handed to the
// step counter (a suspicion threshold, not a verdict).
var totalityStall = 3 * time.Minute

// runTotality drives one stream [0,n) through child processes.
func runTotality(run *core.Run, stream string, n int, batch int) {
	exe, err := os.Executable()
	if err != nil {
		run.Inconclusive("cannot find own executable: %v", err)
		return
	}
	tmp, err := os.MkdirTemp("", "vtot-")
	if err != nil {
		run.Inconclusive("no scratch directory: %v", err)
		return
	}
	defer os.RemoveAll(tmp)
	type rng struct{ from, to int }
	var jobs []rng
	for f := 0; f < n; f += batch {
		t := f + batch
		if t > n {
			t = n
		}
		jobs = append(jobs, rng{f, t})
	}
	var abandoned int32 // set once a call of this stream was shown not to return: one witness is enough
	core.Parallel(len(jobs), func(j int) {
		from, to := jobs[j].from, jobs[j].to
		for from < to {
			if atomic.LoadInt32(&abandoned) != 0 {
				run.Count("totality_inputs_skipped_after_a_hang:"+stream, int64(to-from))
				return
			}
			idxFile := filepath.Join(tmp, fmt.Sprintf("%s-%d.idx", stream, j))
			os.Remove(idxFile)
			spec, _ := json.Marshal(totalitySpec{Seed: run.Seed, Stream: stream, From: from, To: to, IndexFile: idxFile})
			cmd := exec.Command(exe, "-worker", "totality")
			cmd.Stdin = bytes.NewReader(spec)
			cmd.Env = append(os.Environ(), "GOMEMLIMIT=3GiB", "GOMAXPROCS=2")
			var stdout, stderr bytes.Buffer
			cmd.Stdout, cmd.Stderr = &stdout, &stderr
			started := time.Now()
			if err := cmd.Start(); err != nil {
				run.Inconclusive("cannot start the totality worker: %v", err)
				return
			}
			waitCh := make(chan error, 1)
			go func() { waitCh <- cmd.Wait() }()
			var werr error
			timedOut, stalled := false, false
			// The child logs the index of the input it is working on. An index that does not move for several minutes
			// (the inputs take milliseconds) makes the input a SUSPECT only: the verdict comes from the logical step
			// counter below. The 20-minute cap stays as the generous outer watchdog whose firing is inconclusive.
			lastIdx, lastMove := "", time.Now()
			poll := time.NewTicker(3 * time.Second)
		wait:
			for {
				select {
				case werr = <-waitCh:
					break wait
				case <-poll.C:
					b, _ := os.ReadFile(idxFile)
					if cur := string(b); cur != lastIdx {
						lastIdx, lastMove = cur, time.Now()
					}
					if lastIdx != "" && time.Since(lastMove) > totalityStall {
						cmd.Process.Kill()
						werr = <-waitCh
						stalled = true
						break wait
					}
					if time.Since(started) > 20*time.Minute {
						cmd.Process.Kill()
						werr = <-waitCh
						timedOut = true
						break wait
					}
				}
			}
			poll.Stop()
			done := false
			sc := bufio.NewScanner(&stdout)
			sc.Buffer(make([]byte, 1<<22), 1<<22)
			for sc.Scan() {
				var ev childEvent
				if json.Unmarshal(sc.Bytes(), &ev) != nil {
					continue
				}
				switch {
				case ev.Done:
					done = true
					run.Eval(int(ev.Calls))
					run.Count("totality_calls:"+stream, ev.Calls)
					run.Count("totality_inputs_accepted:"+stream, ev.Accepts)
					run.Count("totality_inputs_rejected:"+stream, ev.Rejects)
				case ev.Panic != "":
					in := makeC08Input(run.Seed, stream, ev.Idx)
					c := in.toCase()
					c.Extra["seed"] = fmt.Sprint(run.Seed)
					c.Extra["entry"] = ev.Entry
					run.Violation("panic:"+ev.Entry+":"+panicClass(ev.Panic), c, "a result or an error", "panic: "+ev.Panic+"\n"+ev.Stack)
				case ev.Class != "":
					in := makeC08Input(run.Seed, stream, ev.Idx)
					c := in.toCase()
					c.Extra["seed"] = fmt.Sprint(run.Seed)
					run.Violation(ev.Class, c, "errors collected while parsing are returned, and never together with a model", ev.Detail)
				}
			}
			if done {
				run.Count("totality_inputs:"+stream, int64(to-from))
				break
			}
			// the child died: attribute to the logged index
			b, _ := os.ReadFile(idxFile)
			idx, perr := strconv.Atoi(strings.TrimSpace(string(b)))
			if perr != nil {
				run.Inconclusive("totality worker for %s[%d,%d) died without logging an index (%v): %s", stream, from, to, werr, clipStr(stderr.String(), 800))
				return
			}
			in := makeC08Input(run.Seed, stream, idx)
			c := in.toCase()
			c.Extra["seed"] = fmt.Sprint(run.Seed)
			if stalled {
				// decide by logical steps: the same input alone under the step counter
				run.Count("totality_stalls_handed_to_the_step_counter", 1)
				verdict := "not reproduced"
				if bin, berr := coverBinary(run); berr != nil {
					run.Inconclusive("totality worker for %s stalled at input #%d and the step counter cannot be built: %v", stream, idx, berr)
				} else {
					for _, r := range runSteps(run, bin, []stepTask{{Stream: stream, Idx: idx, Seed: run.Seed, HangTimes: 2}}, 1) {
						if r.Hang || float64(r.Steps) > 2*quadBudget(r.Len) {
							verdict = "confirmed"
							if known := knownSlowShape(in); known != "" {
								if _, ok := run.FindingListed(known); ok {
									run.Known(known)
									verdict = "known finding " + known
									break
								}
							}
							atomic.StoreInt32(&abandoned, 1)
							run.Violation("hang:"+stream, c, fmt.Sprintf("a result or an error within %.0f steps for %d bytes (twice the quadratic budget, 12x the worst legitimate family)", 2*quadBudget(r.Len), r.Len), fmt.Sprintf("the call was still running after %d steps (the totality worker had made no progress for %v before)", r.Steps, totalityStall))
						}
					}
				}
				run.Note("totality worker for %s made no progress for %v at input #%d: step counter says %s", stream, totalityStall, idx, verdict)
			} else if timedOut {
				run.Inconclusive("totality worker for %s stopped by the wall-clock watchdog after %v at input #%d (len %d)", stream, time.Since(started).Round(time.Second), idx, len(in.Text))
			} else {
				run.Violation("fatal-error:"+stream+":"+fatalClass(stderr.String()), c, "a result or an error", fmt.Sprintf("the process died (%v) while working on input #%d:\n%s", werr, idx, clipStr(stderr.String(), 3000)))
			}
			run.Count("totality_inputs:"+stream, int64(idx+1-from))
			from = idx + 1
		}
	})
}

func panicClass(p string) string {
	switch {
	case strings.Contains(p, "nil pointer"):
		return "nil-dereference"
	case strings.Contains(p, "index out of range"):
		return "index-out-of-range"
	case strings.Contains(p, "nil map"):
		return "nil-map"
	case strings.Contains(p, "slice bounds"):
		return "slice-bounds"
	case strings.Contains(p, "interface conversion"):
		return "interface-conversion"
	}
	return "other"
}

func fatalClass(stderr string) string {
	switch {
	case strings.Contains(stderr, "stack overflow") || strings.Contains(stderr, "goroutine stack exceeds"):
		return "stack-overflow"
	case strings.Contains(stderr, "concurrent map"):
		return "concurrent-map"
	case strings.Contains(stderr, "out of memory"):
		return "out-of-memory"
	}
	return "other"
}

// runSteps sends tasks to coverage-instrumented children and returns the results.
func runSteps(run *core.Run, bin string, tasks []stepTask, procs int) []stepResult {
	if procs > len(tasks) {
		procs = len(tasks)
	}
	if procs < 1 {
		return nil
	}
	chunks := make([][]stepTask, procs)
	for i, t := range tasks {
		chunks[i%procs] = append(chunks[i%procs], t)
	}
	var mu sync.Mutex
	var results []stepResult
	var wg sync.WaitGroup
	// the instrumented children write their counter files here when they exit: removed with the run
	covDir, cerr := os.MkdirTemp("", "vcov-")
	if cerr != nil {
		covDir = os.TempDir()
	} else {
		defer os.RemoveAll(covDir)
	}
	for p := 0; p < procs; p++ {
		wg.Add(1)
		go func(ts []stepTask) {
			defer wg.Done()
			for len(ts) > 0 {
				b, _ := json.Marshal(ts)
				cmd := exec.Command(bin, "-worker", "steps")
				cmd.Stdin = bytes.NewReader(b)
				cmd.Env = append(os.Environ(), "GOMAXPROCS=2", "GOMEMLIMIT=3GiB", "GOCOVERDIR="+covDir)
				var stdout bytes.Buffer
				cmd.Stdout = &stdout
				cmd.Start()
				waitCh := make(chan error, 1)
				go func() { waitCh <- cmd.Wait() }()
				select {
				case <-waitCh:
				case <-time.After(40 * time.Minute):
					cmd.Process.Kill()
					<-waitCh
					run.Inconclusive("step-counter worker stopped by the wall-clock watchdog")
				}
				got := 0
				sc := bufio.NewScanner(&stdout)
				sc.Buffer(make([]byte, 1<<20), 1<<20)
				for sc.Scan() {
					var r stepResult
					if json.Unmarshal(sc.Bytes(), &r) != nil {
						continue
					}
					if r.Err != "" && r.Family == "" && r.Stream == "" {
						run.Inconclusive("step-counter worker: %s", r.Err)
						return
					}
					mu.Lock()
					results = append(results, r)
					mu.Unlock()
					got++
				}
				if got == 0 {
					run.Inconclusive("step-counter worker produced no result for %v", ts[0])
					got = 1
				}
				ts = ts[got:]
			}
		}(chunks[p])
	}
	wg.Wait()
	return results
}

func max0(i int) int {
	if i < 0 {
		return 0
	}
	return i
}

// evaluateFamilies judges the measurements; it returns the families whose LAST doubling alone was above the bound
// (suspects): the caller re-measures those cold at larger sizes.
func evaluateFamilies(run *core.Run, results []stepResult) map[string]bool {
	suspects := map[string]bool{}
	by := map[string][]stepResult{}
	for _, r := range results {
		if r.Family != "" {
			by[r.Family] = append(by[r.Family], r)
		}
	}
	var names []string
	for n := range by {
		names = append(names, n)
	}
	sort.Strings(names)
	worstRatio, worstName := 0.0, ""
	for _, name := range names {
		rs := by[name]
		sort.Slice(rs, func(i, j int) bool { return rs[i].N < rs[j].N })
		fam := stepFamilies()[name]
		run.Count("families_measured", 1)
		run.Count("step_measurements", int64(len(rs)))
		bad := ""
		line := ""
		for i, r := range rs {
			line += fmt.Sprintf(" n=%d len=%d steps=%d", r.N, r.Len, r.Steps)
			if r.Err != "" {
				run.Inconclusive("family %s n=%d: %s", name, r.N, r.Err)
				continue
			}
			if r.Hang {
				bad = fmt.Sprintf("call stopped while still running after %d steps for %d bytes (more than 50x the quadratic budget, or more than 64x the steps of the previous size)", r.Steps, r.Len)
			}
			if float64(r.Steps) > quadBudget(r.Len) {
				bad = fmt.Sprintf("%d steps for %d bytes exceeds the quadratic budget %.0f", r.Steps, r.Len, quadBudget(r.Len))
			}
			if i == len(rs)-1 && i > 0 && rs[i-1].Steps > 0 && r.Len >= rs[i-1].Len*3/2 {
				// growth exponent between the two largest sizes, normalised to a doubling of the input length
				ratio := float64(r.Steps) / float64(rs[i-1].Steps)
				lr := float64(r.Len) / float64(rs[i-1].Len)
				exp := logf(ratio) / logf(lr)
				if float64(r.Steps) > 5e6 {
					// the growth must be sustained: ANTLR's prediction caches make single steps jumpy (a family that
					// is cheap while the cache covers it can jump by 300x at the next size and be quadratic from
					// there on), so the exponent of the previous doubling must be above the bound as well
					prevExp := 99.0
					if i >= 2 && rs[i-2].Steps > 0 && rs[i-1].Len > rs[i-2].Len {
						prevExp = logf(float64(rs[i-1].Steps)/float64(rs[i-2].Steps)) / logf(float64(rs[i-1].Len)/float64(rs[i-2].Len))
					}
					sustained := exp
					if prevExp < sustained {
						sustained = prevExp
					}
					if sustained > worstRatio && fam.known == "" {
						worstRatio, worstName = sustained, name
					}
					if exp > 2.6 && prevExp > 2.6 {
						bad = fmt.Sprintf("growth exponents %.2f and %.2f over the last two doublings (%d -> %d -> %d steps for %d -> %d bytes)", prevExp, exp, rs[max0(i-2)].Steps, rs[i-1].Steps, r.Steps, rs[i-1].Len, r.Len)
					} else if exp > 2.6 {
						suspects[name] = true
					}
				}
			}
		}
		if bad == "" {
			continue
		}
		if fam.known != "" {
			if _, ok := run.FindingListed(fam.known); ok {
				run.Known(fam.known)
				continue
			}
		}
		run.Violation("work-not-quadratic:"+name, &core.Case{Kind: "family", Text: name, Extra: map[string]string{"measurements": line}}, "steps bounded by a quadratic function of the input length", bad+"\n"+line)
	}
	run.Note("largest sustained growth exponent among families above the floor (known-finding families excluded): %.2f (%s)", worstRatio, worstName)
	return suspects
}

func logf(x float64) float64 { return math.Log(x) }

func runC08(run *core.Run) {
	core.NoJobWatch = true // the jobs of this check run child processes under their own step budgets and CPU-time limits
	run.Rule = "(1) totality: child processes run every entry point on G4 mutants as DSL / module file sets / fga.mod YAML, G3 cooperating module file sets with injected conflicts under hostile layouts, token-level mutants of model JSON, G1d degenerate protobuf models (30 kinds of missing optional parts, 1-4 per model) and hostile strings; the input index is logged before each call so that a fatal error is attributed; (2) work bound: logical steps = sum of Go coverage counters (repo packages + ANTLR / yaml.v3 / protojson) of single calls on scaled families (every unit of the lexer vocabulary x 6 contexts, nesting, chains, line runs, model-level chains/rings/meshes, YAML and JSON shapes) at 3-4 doubling sizes and on random mutants: quadratic budget and growth exponent <= 2.6; a call exceeding 50x its budget is a hang; (3) errors are reported: ParseDSL collected errors <=> TransformDSLToProto returns an error and no model on every DSL input; one character that starts no token injected anywhere outside comments and CEL strings of a valid text must yield an error; non-trivial = input that reached an entry point / family measured; distinct by stream and index"
	sizes := map[string]int{"dsl": run.N(40000, 1500000), "modfiles": run.N(8000, 200000), "yaml": run.N(15000, 400000), "json": run.N(12000, 300000), "models": run.N(40000, 1200000), "strings": run.N(1500, 20000), "mergesets": run.N(6000, 150000)}
	// committed crashers first
	replayCorpusCrashers(run)
	for _, s := range []string{"dsl", "modfiles", "mergesets", "yaml", "json", "models", "strings"} {
		runTotality(run, s, sizes[s], run.N(2500, 20000))
		for i := 0; i < sizes[s]; i++ {
			run.NonTrivial(fmt.Sprintf("%s/%d", s, i)) // inputs are distinct by (stream, index)
		}
	}
	for _, s := range []string{"dsl", "models", "yaml"} {
		in := makeC08Input(run.Seed, s, 1)
		run.Sample(in.toCase())
	}
	// deep nesting: stack exhaustion is a fatal error, not a panic
	deepNestingProbe(run)
	// (3b) characters that start no token
	illegalCharInjection(run, run.N(1500, 30000))
	illegalCharInModuleFiles(run, run.N(1500, 30000))
	// (2) work bound
	bin, err := coverBinary(run)
	if err != nil {
		run.Inconclusive("coverage-instrumented build failed, the work bound was not measured: %v", err)
		return
	}
	var tasks []stepTask
	all := famNames(nil)
	pick := all
	if run.Tier == "quick" {
		pick = nil
		for i, n := range all {
			f := stepFamilies()[n]
			special := !strings.Contains(n, "+")
			if special && (strings.HasPrefix(n, "dsl/") || strings.HasSuffix(n, "/Build") || strings.HasPrefix(n, "yaml/") || strings.HasPrefix(n, "mergeset/")) || (i%17 == int(run.Seed)%17) || (f.known != "" && strings.HasPrefix(n, "dsl/hdr")) {
				pick = append(pick, n)
			}
		}
	}
	for _, n := range pick {
		f := stepFamilies()[n]
		sz := f.sizes
		if run.Tier == "quick" && len(sz) > 3 {
			sz = sz[:3]
		}
		for _, k := range sz {
			tasks = append(tasks, stepTask{Family: n, N: k})
		}
	}
	res := runFamilyTasks(run, bin, tasks)
	suspects := evaluateFamilies(run, res)
	// suspects: only the last doubling was above the bound - measured again in a fresh process at the two largest
	// sizes and two further doublings, and judged by the same sustained-growth rule
	if len(suspects) > 0 {
		var st []stepTask
		var names []string
		for n := range suspects {
			names = append(names, n)
		}
		sort.Strings(names)
		for _, n := range names {
			f := stepFamilies()[n]
			last := f.sizes[len(f.sizes)-1]
			for _, k := range []int{last / 2, last, last * 2, last * 4} {
				st = append(st, stepTask{Family: n, N: k})
			}
		}
		run.Count("families_remeasured_at_larger_sizes", int64(len(names)))
		again := evaluateFamilies(run, runFamilyTasks(run, bin, st))
		for n := range again {
			run.Note("family %s: super-quadratic growth on the last doubling only, twice (not sustained)", n)
		}
	}
	// random mutants held to the absolute bound
	var mt []stepTask
	nm := run.N(300, 8000)
	for i := 0; i < nm; i++ {
		mt = append(mt, stepTask{Stream: []string{"dsl", "yaml", "json", "modfiles"}[i%4], Idx: 1000000 + i, Seed: run.Seed})
	}
	for _, r := range runSteps(run, bin, mt, 16) {
		run.Count("mutants_step_counted", 1)
		if r.Err != "" {
			continue
		}
		if r.Hang || float64(r.Steps) > 8*quadBudget(r.Len) {
			in := makeC08Input(r.Seed, r.Stream, r.Idx)
			c := in.toCase()
			c.Extra["seed"] = fmt.Sprint(r.Seed)
			if known := knownSlowShape(in); known != "" {
				if _, ok := run.FindingListed(known); ok {
					run.Known(known)
					continue
				}
			}
			run.Violation("mutant-exceeds-quadratic-budget", c, fmt.Sprintf("<= %.0f steps for %d bytes (all entry points of the stream)", 8*quadBudget(r.Len), r.Len), fmt.Sprintf("%d steps, hang=%v", r.Steps, r.Hang))
		}
	}
}

// runFamilyTasks groups the tasks so that all sizes of one family are measured by the same child, in order.
func runFamilyTasks(run *core.Run, bin string, tasks []stepTask) []stepResult {
	byFam := map[string][]stepTask{}
	var order []string
	for _, t := range tasks {
		if _, ok := byFam[t.Family]; !ok {
			order = append(order, t.Family)
		}
		byFam[t.Family] = append(byFam[t.Family], t)
	}
	procs := 16
	chunks := make([][]stepTask, procs)
	for i, f := range order {
		chunks[i%procs] = append(chunks[i%procs], byFam[f]...)
	}
	var mu sync.Mutex
	var results []stepResult
	var wg sync.WaitGroup
	for p := 0; p < procs; p++ {
		if len(chunks[p]) == 0 {
			continue
		}
		wg.Add(1)
		go func(ts []stepTask) {
			defer wg.Done()
			r := runSteps(run, bin, ts, 1)
			mu.Lock()
			results = append(results, r...)
			mu.Unlock()
		}(chunks[p])
	}
	wg.Wait()
	return results
}

// knownSlowShape recognises the signature of finding K1 in a mutant: a run of >= 50 form feeds / CR LF pairs.
func knownSlowShape(in c08Input) string {
	txt := in.Text
	for _, f := range in.Files {
		txt += f.Contents
	}
	run, best := 0, 0
	for i := 0; i < len(txt); i++ {
		if txt[i] == '\f' || txt[i] == '\r' || (txt[i] == '\n' && i > 0 && txt[i-1] == '\r') {
			run++
			if run > best {
				best = run
			}
		} else {
			run = 0
		}
	}
	if best >= 50 {
		return "K1"
	}
	return ""
}

func deepNestingProbe(run *core.Run) {
	// run in a child: exhausting the stack is a fatal error that recover() does not see
	exe, err := os.Executable()
	if err != nil {
		return
	}
	depths := []int{300, 3000}
	if run.Tier == "thorough" {
		depths = []int{300, 3000, 20000}
	}
	for _, d := range depths {
		for kind := 0; kind < 5; kind++ {
			if kind == 3 && d > 400 {
				continue // nested parentheses in DSL text are (legitimately) quadratic: deeper texts only cost time
			}
			cmd := exec.Command(exe, "-worker", "deep", "-deep", fmt.Sprintf("%d,%d", d, kind))
			cmd.Env = append(os.Environ(), "GOMEMLIMIT=4GiB")
			var stderr bytes.Buffer
			cmd.Stderr = &stderr
			err := cmd.Run()
			run.Eval(1)
			run.Count("deep_nesting_probes", 1)
			if err != nil {
				run.Violation(fmt.Sprintf("fatal-error:deep-nesting:kind%d:%s", kind, fatalClass(stderr.String())), &core.Case{Kind: "deep", Ints: []int{d, kind}}, "a result or an error", clipStr(stderr.String(), 1500))
			}
		}
	}
}

func deepWorker(spec string) {
	var d, kind int
	fmt.Sscanf(spec, "%d,%d", &d, &kind)
	switch kind {
	case 0, 1, 2:
		m := gen.DeepModel(d, kind)
		transformer.TransformJSONProtoToDSL(m)
		graph.NewAuthorizationModelGraph(m)
		graph.NewWeightedAuthorizationModelGraphBuilder().Build(m)
	case 3:
		transformer.TransformDSLToProto(famRel + strings.Repeat("(", d) + "a" + strings.Repeat(")", d))
	case 4:
		transformer.TransformJSONStringToDSL("{\"type_definitions\":[{\"type\":\"t\",\"relations\":{\"r\":" + strings.Repeat("{\"union\":{\"child\":[", d) + "{\"this\":{}}" + strings.Repeat("]}}", d) + "}}]}")
	}
}

// illegalCharInjection: one character that starts no token of the default lexer mode, anywhere outside a comment
// and outside a quoted CEL string of a valid text, must yield an error.
func illegalCharInjection(run *core.Run, n int) {
	illegal := []string{"$", "@", "^", "~", ";", "\\", "&", "|", "=", "`", "\x00", "\x01", "\x7f", "é", "日", "\u00a0", "\u2028"}
	core.Parallel(n, func(i int) {
		r := run.Rng("illegal", i)
		g := &gen.DSLGen{R: r}
		d := g.Doc(r.Intn(4) == 0)
		// no conditions: a CEL string or comment could legally contain the character
		d.Conds = nil
		for ti := range d.Types {
			for ri := range d.Types[ti].Rels {
				d.Types[ti].Rels[ri].Expr.Walk(func(e *gen.Expr) {
					for k := range e.Restr {
						e.Restr[k].Cond = ""
					}
				})
			}
		}
		lay := &gen.Layout{R: r, Wild: r.Intn(2) == 0, Comments: false}
		if i%40 == 7 {
			// a comment line longer than the 64 KiB default buffers of line readers, early in the text: what follows it
			// is still input, and an error in it is still owed
			lay.Long = 66000 + r.Intn(5000)
			run.Count("illegal_characters_injected_behind_a_line_over_64KiB", 1)
		}
		txt := d.Render(lay)
		if _, err := transformer.TransformDSLToProto(txt); err != nil {
			return
		}
		ch := illegal[r.Intn(len(illegal))]
		// never right after a blank followed by '#': that would be a comment; the text has no comments, and the
		// injected characters are not '#'
		p := r.Intn(len(txt) + 1)
		if lay.Long > 0 {
			// behind the long line (it is a comment: a character inside it would be no error)
			if q := strings.Index(txt, strings.Repeat("x", 60000)); q >= 0 {
				if e := strings.IndexByte(txt[q:], '\n'); e >= 0 && q+e+1 < len(txt) {
					p = q + e + 1 + r.Intn(len(txt)-(q+e+1)+1)
				}
			}
		}
		if i%9 == 4 {
			// a lone carriage return (or form feed) INSIDE a word: it is a line break for the grammar, so the word falls
			// apart and the text is no model any more - it must not be glued together again
			var spots []int
			for q := 1; q < len(txt); q++ {
				if isWordByte(txt[q-1]) && isWordByte(txt[q]) && !(lay.Long > 0 && q < p) {
					spots = append(spots, q)
				}
			}
			if len(spots) > 0 {
				p = spots[r.Intn(len(spots))]
				ch = []string{"\r", "\r", "\f"}[r.Intn(3)]
				run.Count("line_breaks_injected_inside_a_word", 1)
			}
		}
		mut := txt[:p] + ch + txt[p:]
		m, err := transformer.TransformDSLToProto(mut)
		run.Eval(1)
		run.Count("illegal_characters_injected", 1)
		if err == nil || m != nil {
			run.Violation("unlexable-character-accepted", &core.Case{Kind: "c08:dsl-literal", Text: mut}, "a syntax error", fmt.Sprintf("accepted; character %q at byte %d", ch, p))
		}
	})
}

func isWordByte(b byte) bool {
	return b == '_' || b >= 'a' && b <= 'z' || b >= 'A' && b <= 'Z' || b >= '0' && b <= '9'
}

// illegalCharInModuleFiles: the same through the modular entry points - one of several module files (unique type
// names, so the set is conflict free; half of the sets give every entry the SAME file name, which the merger keys its
// maps by) gets one unlexable character: TransformModuleFilesToModel and TransformModularDSLToProto must report it.
func illegalCharInModuleFiles(run *core.Run, n int) {
	illegal := []string{"$", "@", "^", "~", ";", "\\", "&", "|", "=", "`", "\x00", "\x7f", "é", "\u00a0"}
	core.Parallel(n, func(i int) {
		r := run.Rng("illegal-mod", i)
		nf := 2 + r.Intn(3)
		sameName := r.Intn(2) == 0
		var files []transformer.ModuleFile
		for k := 0; k < nf; k++ {
			var sb strings.Builder
			fmt.Fprintf(&sb, "module m%d\n", k%2)
			for j := 0; j <= r.Intn(3); j++ {
				fmt.Fprintf(&sb, "type t%d_%d\n", k, j)
				if r.Intn(2) == 0 {
					fmt.Fprintf(&sb, "  relations\n    define r: [t%d_0]\n    define s: r or r\n", k)
				}
			}
			if k > 0 && r.Intn(2) == 0 {
				fmt.Fprintf(&sb, "extend type t%d_0\n  relations\n    define x%d: [t%d_0]\n", k-1, k, k)
			}
			name := fmt.Sprintf("f%d.fga", k)
			if sameName {
				name = "same.fga"
			}
			files = append(files, transformer.ModuleFile{Name: name, Contents: sb.String()})
		}
		c := &core.Case{Kind: "c08:modfiles-literal"}
		if m, err := transformer.TransformModuleFilesToModel(files, "1.2"); err != nil || m == nil {
			run.Count("illegal_mod_base_sets_rejected", 1) // generator slip, not a finding: skip
			return
		}
		victim := r.Intn(nf)
		ch := illegal[r.Intn(len(illegal))]
		txt := files[victim].Contents
		p := r.Intn(len(txt) + 1)
		files[victim].Contents = txt[:p] + ch + txt[p:]
		for _, f := range files {
			c.Files = append(c.Files, core.File{Name: f.Name, Contents: f.Contents})
		}
		run.Guard(c, func() {
			m, err := transformer.TransformModuleFilesToModel(files, "1.2")
			_, _, err2 := transformer.TransformModularDSLToProto(files[victim].Contents)
			run.Eval(2)
			run.Count("illegal_characters_injected_into_module_files", 1)
			if err == nil || m != nil {
				run.Violation("unlexable-character-accepted:TransformModuleFilesToModel", c, "an error", fmt.Sprintf("accepted; character %q at byte %d of entry #%d (%s)", ch, p, victim, files[victim].Name))
			}
			if err2 == nil {
				run.Violation("unlexable-character-accepted:TransformModularDSLToProto", c, "an error", fmt.Sprintf("accepted; character %q at byte %d", ch, p))
			}
		})
	})
}

// replayCorpusCrashers replays the committed crashers (corpus/*.json) through the totality monitors in process.
func replayCorpusCrashers(run *core.Run) {
	files, _ := filepath.Glob(filepath.Join(core.Root, "corpus", "*.json"))
	sort.Strings(files)
	for _, f := range files {
		c, err := core.LoadCase(f)
		if err != nil {
			continue
		}
		replayC08(run, c)
		run.Count("corpus_crashers_replayed", 1)
	}
}

func replayC08(run *core.Run, c *core.Case) {
	var in c08Input
	stream := strings.TrimPrefix(c.Kind, "c08:")
	switch {
	case c.Kind == "family":
		bin, err := buildCoverBinary(run)
		if err != nil {
			fmt.Println(err)
			return
		}
		f := stepFamilies()[c.Text]
		if f == nil {
			fmt.Println("unknown family", c.Text)
			return
		}
		var ts []stepTask
		for _, k := range f.sizes {
			ts = append(ts, stepTask{Family: c.Text, N: k})
		}
		evaluateFamilies(run, runSteps(run, bin, ts, 1))
		return
	case c.Kind == "deep":
		deepNestingProbe(run)
		return
	case stream == "modfiles-literal":
		var files []transformer.ModuleFile
		for _, f := range c.Files {
			files = append(files, transformer.ModuleFile{Name: f.Name, Contents: f.Contents})
		}
		if m, err := transformer.TransformModuleFilesToModel(files, "1.2"); err == nil || m != nil {
			run.Violation("unlexable-character-accepted:TransformModuleFilesToModel", c, "an error", "accepted")
		}
		return
	case stream == "dsl-literal":
		in = c08Input{Stream: "dsl", Text: c.Text}
		if m, err := transformer.TransformDSLToProto(c.Text); err == nil || m != nil {
			run.Violation("unlexable-character-accepted", c, "a syntax error", "accepted")
		}
	case c.Extra["seed"] != "" && c.Extra["idx"] != "":
		seed, _ := strconv.ParseInt(c.Extra["seed"], 10, 64)
		idx, _ := strconv.Atoi(c.Extra["idx"])
		in = makeC08Input(seed, stream, idx)
	case stream == "modfiles" || stream == "mergesets":
		in = c08Input{Stream: stream, Files: c.Files}
	default:
		in = c08Input{Stream: stream, Text: c.Text}
	}
	var buf bytes.Buffer
	var calls, a, r int64
	exerciseInput(json.NewEncoder(&buf), in, &calls, &a, &r)
	run.Eval(int(calls))
	sc := bufio.NewScanner(&buf)
	sc.Buffer(make([]byte, 1<<22), 1<<22)
	for sc.Scan() {
		var ev childEvent
		if json.Unmarshal(sc.Bytes(), &ev) != nil {
			continue
		}
		if ev.Panic != "" {
			run.Violation("panic:"+ev.Entry+":"+panicClass(ev.Panic), c, "a result or an error", "panic: "+ev.Panic+"\n"+ev.Stack)
		} else if ev.Class != "" {
			run.Violation(ev.Class, c, "errors are reported", ev.Detail)
		}
	}
}
