package main

import (
	"fmt"
	"os"
	"path/filepath"
	"reflect"
	"strings"
	"sync"
	"unicode"

	"github.com/antlr4-go/antlr/v4"
	parser "github.com/openfga/language/pkg/go/gen"
	"github.com/openfga/language/pkg/go/transformer"

	"verif/internal/core"
	"verif/internal/g4"
	"verif/internal/gen"
)

// C19: the Go, JS and Java parsers are generated from the one grammar in the repository.

func init() { register("C19", runC19, replayC19, 200) }

type countingListener struct {
	*antlr.DefaultErrorListener
	n int
}

func (e *countingListener) SyntaxError(_ antlr.Recognizer, _ interface{}, _, _ int, _ string, _ antlr.RecognitionException) {
	e.n++
}

// lexNames runs the real generated lexer and returns the symbolic names of the default-channel tokens.
func lexNames(txt string) ([]string, int) {
	lx := parser.NewOpenFGALexer(antlr.NewInputStream(txt))
	le := &countingListener{}
	lx.RemoveErrorListeners()
	lx.AddErrorListener(le)
	var out []string
	for {
		t := lx.NextToken()
		if t.GetTokenType() == antlr.TokenEOF {
			out = append(out, "EOF")
			break
		}
		if t.GetChannel() != antlr.TokenDefaultChannel {
			continue
		}
		tt := t.GetTokenType()
		if tt > 0 && tt < len(lx.SymbolicNames) {
			out = append(out, lx.SymbolicNames[tt])
		} else {
			out = append(out, fmt.Sprintf("<%d>", tt))
		}
	}
	return out, le.n
}

// generatedParserAccepts drives the real generated parser directly (own error listener, no repo listener).
func generatedParserAccepts(txt string) bool {
	ok, _, _, _ := generatedParserTree(txt)
	return ok
}

// budgetStream counts the look-ahead and consume calls the parser and its prediction engine make on the token
// stream - a logical step counter. A parse of n tokens needs a small multiple of n of them (a few n^2 in the worst
// prediction case); a generated parser whose hand-edited loop no longer consumes input makes them without end.
type budgetStream struct {
	*antlr.CommonTokenStream
	steps, budget int64
}

type parserBudgetExceeded struct{ steps int64 }

func (b *budgetStream) tick() {
	b.steps++
	if b.steps > b.budget {
		panic(parserBudgetExceeded{b.steps})
	}
}
func (b *budgetStream) LA(i int) int         { b.tick(); return b.CommonTokenStream.LA(i) }
func (b *budgetStream) LT(k int) antlr.Token { b.tick(); return b.CommonTokenStream.LT(k) }
func (b *budgetStream) Consume()             { b.tick(); b.CommonTokenStream.Consume() }

var errParserBudget = fmt.Errorf("step budget of the generated parser exceeded")

// generatedParserTree: ok = parsed without syntax error; steps < 0 = the step budget ran out (no result).
func generatedParserTree(txt string) (ok bool, t antlr.Tree, p *parser.OpenFGAParser, steps int64) {
	lx := parser.NewOpenFGALexer(antlr.NewInputStream(txt))
	lx.RemoveErrorListeners()
	st := &budgetStream{CommonTokenStream: antlr.NewCommonTokenStream(lx, antlr.TokenDefaultChannel)}
	n := int64(len(txt))
	st.budget = 2_000_000 + 20_000*n
	p = parser.NewOpenFGAParser(st)
	pe := &countingListener{}
	p.RemoveErrorListeners()
	p.AddErrorListener(pe)
	defer func() {
		if rec := recover(); rec != nil {
			if _, isBudget := rec.(parserBudgetExceeded); isBudget {
				ok, t, steps = false, nil, -1
				return
			}
			panic(rec)
		}
	}()
	t = p.Main()
	return pe.n == 0, t, p, st.steps
}

// treeConforms walks a parse tree of the generated parser: every rule node must carry a rule of the grammar and its
// children (token names, rule names of the sub-trees) must be derivable from that rule in the .g4 on disk. Returns a
// description of the first node that does not conform, and the number of rule nodes checked.
func treeConforms(tg *g4.Grammar, t antlr.Tree, p *parser.OpenFGAParser) (string, int) {
	nodes := 0
	var bad string
	var walk func(t antlr.Tree)
	walk = func(t antlr.Tree) {
		if bad != "" {
			return
		}
		rc, ok := t.(antlr.RuleContext)
		if !ok {
			return
		}
		ri := rc.GetRuleIndex()
		if ri < 0 || ri >= len(p.RuleNames) {
			bad = fmt.Sprintf("node with rule index %d outside the %d rules", ri, len(p.RuleNames))
			return
		}
		name := p.RuleNames[ri]
		var seq []string
		for _, ch := range t.GetChildren() {
			switch c := ch.(type) {
			case antlr.ErrorNode:
				seq = append(seq, "<error>")
			case antlr.TerminalNode:
				tt := c.GetSymbol().GetTokenType()
				switch {
				case tt == antlr.TokenEOF:
					seq = append(seq, "EOF")
				case tt > 0 && tt < len(p.SymbolicNames):
					seq = append(seq, p.SymbolicNames[tt])
				default:
					seq = append(seq, fmt.Sprintf("<%d>", tt))
				}
			case antlr.RuleContext:
				ci := c.GetRuleIndex()
				if ci >= 0 && ci < len(p.RuleNames) {
					seq = append(seq, "@"+p.RuleNames[ci])
				} else {
					seq = append(seq, fmt.Sprintf("@<%d>", ci))
				}
			}
		}
		nodes++
		if !tg.Accepts(name, seq) {
			bad = fmt.Sprintf("node of rule %q (context %T) has children %v, which rule %q of OpenFGAParser.g4 does not derive", name, t, seq, name)
			return
		}
		for _, ch := range t.GetChildren() {
			walk(ch)
		}
	}
	walk(t)
	return bad, nodes
}

var (
	grammarOnce sync.Once
	grammarVal  *g4.Grammar
	grammarErr  error
)

func parserGrammar() (*g4.Grammar, error) {
	grammarOnce.Do(func() {
		grammarVal, grammarErr = g4.ReadParserGrammar(filepath.Join(gen.RepoDir(), "OpenFGAParser.g4"))
	})
	return grammarVal, grammarErr
}

// grammarVsParser: accepted by the grammar on disk <=> parsed without syntax error by the generated parser.
func grammarVsParser(run *core.Run, g *g4.Grammar, txt string, origin string) {
	run.Guard(&core.Case{Kind: "text", DSL: txt, Extra: map[string]string{"origin": origin}}, func() { grammarVsParser1(run, g, txt, origin) })
}

func grammarVsParser1(run *core.Run, g *g4.Grammar, txt string, origin string) {
	tk, _ := lexNames(txt)
	if len(tk) > 400 {
		return // Earley is cubic; long inputs add nothing here
	}
	refOK := g.Accepts("main", tk)
	realOK, tree, prs, steps := generatedParserTree(txt)
	run.Eval(2)
	// the hand-written listener walks whatever tree the generated parser builds, also after error recovery: the
	// generated context accessors it relies on (children that may be absent) are part of the generated code too
	if len(txt) < 4000 {
		transformer.TransformDSLToProto(txt)
		transformer.TransformModularDSLToProto(txt)
		run.Eval(2)
	}
	if steps < 0 {
		run.Violation("generated-parser-does-not-terminate-within-its-step-budget", &core.Case{Kind: "text", DSL: txt, Extra: map[string]string{"origin": origin}},
			fmt.Sprintf("a parse (OpenFGAParser.g4 accepts: %v) within 2e6 + 2e4 x bytes look-ahead / consume calls on the token stream", refOK), fmt.Sprintf("budget exhausted on %d bytes, %d tokens", len(txt), len(tk)))
		return
	}
	run.Max("max_token_stream_calls_of_one_parse", steps)
	if refOK {
		run.Count("texts_accepted_by_grammar", 1)
	} else {
		run.Count("texts_rejected_by_grammar", 1)
	}
	if refOK != realOK {
		run.Violation(fmt.Sprintf("grammar-and-generated-parser-disagree:grammar=%v", refOK), &core.Case{Kind: "text", DSL: txt, Extra: map[string]string{"origin": origin}},
			fmt.Sprintf("OpenFGAParser.g4 (Earley) accepts: %v", refOK), fmt.Sprintf("generated Go parser accepts: %v; tokens %v", realOK, tk))
		return
	}
	if realOK {
		// layer 5: the tree the generated Go parser built is a derivation of the grammar on disk (the JS and Java
		// packages are tied to the same grammar through layers 1-2, so their trees are the same derivations)
		bad, nodes := treeConforms(treeGrammar(g), tree, prs)
		run.Eval(1)
		run.Count("parse_tree_nodes_checked_against_grammar", int64(nodes))
		if bad != "" {
			run.Violation("parse-tree-is-no-derivation-of-the-grammar", &core.Case{Kind: "text", DSL: txt, Extra: map[string]string{"origin": origin}}, "every node: children derivable from the node's rule in OpenFGAParser.g4", bad)
			return
		}
	}
	run.NonTrivial(strings.Join(tk, " "))
}

var (
	treeGrammarOnce sync.Once
	treeGrammarVal  *g4.Grammar
)

func treeGrammar(g *g4.Grammar) *g4.Grammar {
	treeGrammarOnce.Do(func() { treeGrammarVal = g.TreeGrammar() })
	return treeGrammarVal
}

func eqInts(a, b []int) string {
	if len(a) != len(b) {
		return fmt.Sprintf("lengths %d and %d", len(a), len(b))
	}
	for i := range a {
		if a[i] != b[i] {
			return fmt.Sprintf("element %d: %d vs %d", i, a[i], b[i])
		}
	}
	return ""
}

func eqStrs(a, b []string) string {
	if len(a) != len(b) {
		return fmt.Sprintf("lengths %d and %d: %v vs %v", len(a), len(b), a, b)
	}
	for i := range a {
		if a[i] != b[i] {
			return fmt.Sprintf("element %d: %q vs %q", i, a[i], b[i])
		}
	}
	return ""
}

func artefactConformance(run *core.Run) {
	repo := gen.RepoDir()
	read := func(rel string) string {
		b, err := os.ReadFile(filepath.Join(repo, rel))
		if err != nil {
			run.Violation("artefact-missing:"+rel, &core.Case{Kind: "artefact", Text: rel}, "file present", err.Error())
			return ""
		}
		return string(b)
	}
	javaDir := "pkg/java/src/main/gen/dev/openfga/language/antlr/"
	for _, kind := range []string{"Parser", "Lexer"} {
		c := &core.Case{Kind: "artefact", Text: kind}
		goSrc := read("pkg/go/gen/openfga_" + strings.ToLower(kind) + ".go")
		tsSrc := read("pkg/js/gen/OpenFGA" + kind + ".ts")
		javaSrc := read(javaDir + "OpenFGA" + kind + ".java")
		interps := map[string]string{}
		tokens := map[string]string{}
		for _, d := range []string{"pkg/go/gen/", "pkg/js/gen/", javaDir} {
			interps[d] = read(d + "OpenFGA" + kind + ".interp")
			tokens[d] = read(d + "OpenFGA" + kind + ".tokens")
		}
		// layer 1: automata
		goATN, err := g4.GoATN(goSrc)
		if err != nil {
			run.Violation("cannot-extract-atn:go:"+kind, c, "serializedATN literal", err.Error())
			continue
		}
		run.Count("atn_integers_"+strings.ToLower(kind), int64(len(goATN)))
		if ts, err := g4.TSATN(tsSrc); err != nil {
			run.Violation("cannot-extract-atn:js:"+kind, c, "_serializedATN literal", err.Error())
		} else if why := eqInts(goATN, ts); why != "" {
			run.Violation("atn-differs:go-vs-js:"+kind, c, "identical serialized ATN", why)
		}
		if jv, err := g4.JavaATN(javaSrc); err != nil {
			run.Violation("cannot-extract-atn:java:"+kind, c, "_serializedATN literal", err.Error())
		} else if why := eqInts(goATN, jv); why != "" {
			run.Violation("atn-differs:go-vs-java:"+kind, c, "identical serialized ATN", why)
		}
		for d, src := range interps {
			if ia, err := g4.InterpATN(src); err != nil {
				run.Violation("cannot-extract-atn:interp:"+kind, c, "atn: section in "+d, err.Error())
			} else if why := eqInts(goATN, ia); why != "" {
				run.Violation("atn-differs:go-vs-interp:"+kind, c, "identical serialized ATN in "+d, why)
			}
			if src != interps["pkg/go/gen/"] {
				run.Violation("interp-files-differ:"+kind, c, "byte-equal .interp files", d)
			}
			if tokens[d] != tokens["pkg/go/gen/"] {
				run.Violation("tokens-files-differ:"+kind, c, "byte-equal .tokens files", d)
			}
			run.Eval(2)
		}
		// the extracted array must deserialize like the live recogniser's ATN
		func() {
			defer func() {
				if r := recover(); r != nil {
					run.Violation("atn-does-not-deserialize:"+kind, c, "a valid ATN", fmt.Sprint(r))
				}
			}()
			arr := make([]int32, len(goATN))
			for i, v := range goATN {
				arr[i] = int32(v)
			}
			atn := antlr.NewATNDeserializer(nil).Deserialize(arr)
			var live *antlr.ATN
			if kind == "Parser" {
				live = parser.NewOpenFGAParser(nil).GetATN()
			} else {
				live = parser.NewOpenFGALexer(nil).GetATN()
			}
			if len(atn.DecisionToState) != len(live.DecisionToState) {
				run.Violation("atn-in-source-differs-from-live-recogniser:"+kind, c, fmt.Sprint(len(live.DecisionToState), " decisions"), fmt.Sprint(len(atn.DecisionToState)))
			}
			run.Count("atn_decisions_"+strings.ToLower(kind), int64(len(atn.DecisionToState)))
			run.Eval(1)
		}()
		// layer 1b: the generated parser CODE has the same shape in the three packages (state and decision numbers in
		// order of appearance): a hand edit of one generated parser that leaves the automaton alone shows here
		if kind == "Parser" {
			gs, gd := g4.CodeFingerprint(goSrc, "go")
			ts, td := g4.CodeFingerprint(tsSrc, "ts")
			js, jd := g4.CodeFingerprint(javaSrc, "java")
			run.Count("generated_code_state_numbers", int64(len(gs)))
			run.Count("generated_code_prediction_decisions", int64(len(gd)))
			if len(gs) == 0 || len(gd) == 0 {
				run.Inconclusive("no state / decision numbers found in the generated Go parser (pattern outdated?)")
			} else {
				if why := eqInts(gs, ts); why != "" {
					run.Violation("generated-code-shape-differs:go-vs-js:states", c, "identical sequence of SetState numbers", why)
				}
				if why := eqInts(gs, js); why != "" {
					run.Violation("generated-code-shape-differs:go-vs-java:states", c, "identical sequence of SetState numbers", why)
				}
				if why := eqInts(gd, td); why != "" {
					run.Violation("generated-code-shape-differs:go-vs-js:decisions", c, "identical sequence of adaptivePredict decisions", why)
				}
				if why := eqInts(gd, jd); why != "" {
					run.Violation("generated-code-shape-differs:go-vs-java:decisions", c, "identical sequence of adaptivePredict decisions", why)
				}
			}
			run.Eval(4)
		}
		// layer 1c: what a tree walker is told - every rule context of the three generated parsers hands itself to
		// exactly its own Enter / Exit callback (a hand edit of one dispatch method changes no automaton, no table,
		// no acceptance and no tree, only what a listener sees)
		if kind == "Parser" {
			if pg, err := parserGrammar(); err == nil {
				for _, l := range []struct{ lang, src string }{{"go", goSrc}, {"ts", tsSrc}, {"java", javaSrc}} {
					ds := g4.ListenerDispatch(l.src, l.lang)
					run.Count("listener_dispatch_methods_"+l.lang, int64(2*len(ds)))
					anyCall := false
					for _, d := range ds {
						if len(d.Enter)+len(d.Exit) > 0 {
							anyCall = true
						}
					}
					if len(ds) == 0 || !anyCall {
						// a generator version that writes these methods differently: nothing can be said, rather than everything flagged
						run.Inconclusive("no EnterRule/ExitRule methods with recognisable callback calls found in the generated %s parser (pattern outdated?)", l.lang)
						continue
					}
					var ctxs []string
					for _, d := range ds {
						ctxs = append(ctxs, strings.ToLower(d.Context))
						run.Eval(2)
						if len(d.Enter) != 1 || !strings.EqualFold(d.Enter[0], "Enter"+d.Context) || len(d.Exit) != 1 || !strings.EqualFold(d.Exit[0], "Exit"+d.Context) {
							run.Violation("listener-dispatch-differs:"+l.lang+":"+d.Context, c, fmt.Sprintf("Enter%s / Exit%s, once each", d.Context, d.Context), fmt.Sprintf("enter calls %v, exit calls %v", d.Enter, d.Exit))
						}
					}
					var want []string
					for _, r := range pg.Rules {
						want = append(want, strings.ToLower(r))
					}
					if why := eqStrs(ctxs, want); why != "" {
						run.Violation("listener-dispatch-contexts-differ-from-grammar-rules:"+l.lang, c, "one context with EnterRule/ExitRule per rule of OpenFGAParser.g4, in order", why)
					}
				}
			}
		}
		// layer 2c: rule-element labels (`name=element`) of the parser grammar = labelled children the generated
		// contexts of the three packages offer
		if kind == "Parser" {
			if gsrc, err := os.ReadFile(filepath.Join(repo, "OpenFGAParser.g4")); err == nil {
				want := g4.GrammarLabels(string(gsrc))
				run.Count("grammar_labels", int64(len(want)))
				for _, l := range []struct{ lang, src string }{{"go", goSrc}, {"ts", tsSrc}, {"java", javaSrc}} {
					got := g4.GeneratedLabels(l.src, l.lang)
					run.Eval(1)
					if len(got) == 0 && len(want) > 0 {
						run.Inconclusive("no labelled children found in the generated %s parser (pattern outdated?)", l.lang)
						continue
					}
					if why := eqStrs(got, want); why != "" {
						run.Violation("rule-element-labels-differ:"+l.lang, c, fmt.Sprintf("the labels of OpenFGAParser.g4: %v", want), fmt.Sprintf("%v (%s)", got, why))
					}
				}
			}
		}
		// layer 2: vocabularies
		gn, err1 := g4.GoNames(goSrc)
		tn, err2 := g4.TSNames(tsSrc)
		jn, err3 := g4.JavaNames(javaSrc)
		if err1 != nil || err2 != nil || err3 != nil {
			run.Violation("cannot-extract-names:"+kind, c, "name tables", fmt.Sprint(err1, err2, err3))
			continue
		}
		cmp := func(what string, a, b []string, who string) {
			run.Eval(1)
			if why := eqStrs(a, b); why != "" {
				run.Violation("vocabulary-differs:"+what+":"+who+":"+kind, c, "identical "+what, why)
			}
		}
		cmp("rule names", gn.Rule, tn.Rule, "go-vs-js")
		cmp("rule names", gn.Rule, jn.Rule, "go-vs-java")
		cmp("literal names", gn.Literal, tn.Literal, "go-vs-js")
		cmp("literal names", gn.Literal, jn.Literal, "go-vs-java")
		cmp("symbolic names", gn.Symbolic, tn.Symbolic, "go-vs-js")
		cmp("symbolic names", gn.Symbolic, jn.Symbolic, "go-vs-java")
		cmp("mode names", gn.Mode, tn.Mode, "go-vs-js")
		cmp("mode names", gn.Mode, jn.Mode, "go-vs-java")
		// live recogniser = source tables
		var liveRule, liveLit, liveSym []string
		if kind == "Parser" {
			p := parser.NewOpenFGAParser(nil)
			liveRule, liveLit, liveSym = p.RuleNames, p.LiteralNames, p.SymbolicNames
		} else {
			l := parser.NewOpenFGALexer(nil)
			liveRule, liveLit, liveSym = l.RuleNames, l.LiteralNames, l.SymbolicNames
		}
		cmp("rule names", trimEmpty(liveRule), gn.Rule, "live-vs-source")
		cmp("literal names", trimEmpty(liveLit), gn.Literal, "live-vs-source")
		cmp("symbolic names", trimEmpty(liveSym), gn.Symbolic, "live-vs-source")
		// grammar sources
		lg, err := g4.ReadLexerGrammar(filepath.Join(repo, "OpenFGALexer.g4"))
		if err != nil {
			run.Violation("cannot-read-lexer-grammar", c, "OpenFGALexer.g4", err.Error())
			continue
		}
		wantSym := append([]string{""}, lg.Tokens...)
		cmp("symbolic names", gn.Symbolic, wantSym, "generated-vs-OpenFGALexer.g4")
		wantLit := make([]string, len(wantSym))
		for i, n := range wantSym {
			wantLit[i] = lg.Literals[n]
		}
		cmp("literal names", gn.Literal, trimEmpty(wantLit), "generated-vs-OpenFGALexer.g4")
		if kind == "Lexer" {
			// literal-only lexer rules of the .g4 (keywords, operators, parameter types): every literal must lex to the
			// rule's token in the rule's mode - a partial conformance check of the lexer that needs no model of ANTLR
			for _, lr := range lg.LiteralRules {
				for _, lit := range lr.Literals {
					var txt string
					switch lr.Mode {
					case "DEFAULT_MODE":
						txt = lit
					case "CONDITION_DEF":
						txt = "condition c(x: " + lit
					default:
						continue
					}
					names, _ := lexNames(txt)
					got := ""
					if len(names) >= 2 {
						got = names[len(names)-2] // the token before EOF
					}
					run.Eval(1)
					run.Count("lexer_literals_checked", 1)
					if got != lr.Token {
						run.Violation("lexer-literal-of-the-grammar-not-lexed:"+lr.Name, &core.Case{Kind: "text", DSL: txt}, fmt.Sprintf("literal '%s' of rule %s lexes to %s", lit, lr.Name, lr.Token), fmt.Sprintf("tokens %v", names))
					}
				}
			}
			cmp("rule names", gn.Rule, lg.Rules, "generated-vs-OpenFGALexer.g4")
			cmp("mode names", gn.Mode, lg.Modes, "generated-vs-OpenFGALexer.g4")
		} else {
			pg, err := parserGrammar()
			if err != nil {
				run.Violation("cannot-read-parser-grammar", c, "OpenFGAParser.g4", err.Error())
				continue
			}
			cmp("rule names", gn.Rule, pg.Rules, "generated-vs-OpenFGAParser.g4")
		}
	}
	// layer 3: listener callbacks exist only for grammar rules
	pg, err := parserGrammar()
	if err == nil {
		rules := map[string]bool{}
		for _, r := range pg.Rules {
			rs := []rune(r)
			rs[0] = unicode.ToUpper(rs[0])
			rules[string(rs)] = true
		}
		t := reflect.TypeOf(&transformer.OpenFgaDslListener{})
		generic := map[string]bool{"EnterEveryRule": true, "ExitEveryRule": true}
		n := 0
		for i := 0; i < t.NumMethod(); i++ {
			name := t.Method(i).Name
			var rule string
			switch {
			case generic[name]:
				continue
			case strings.HasPrefix(name, "Enter"):
				rule = strings.TrimPrefix(name, "Enter")
			case strings.HasPrefix(name, "Exit"):
				rule = strings.TrimPrefix(name, "Exit")
			default:
				continue
			}
			n++
			run.Eval(1)
			if !rules[rule] {
				run.Violation("listener-callback-for-unknown-rule", &core.Case{Kind: "artefact", Text: name}, "a rule of OpenFGAParser.g4", name)
			}
		}
		run.Count("listener_callbacks_checked", int64(n))
		// every rule has its callbacks in the method set (embedded base listener or override)
		for r := range rules {
			if _, ok := t.MethodByName("Enter" + r); !ok {
				run.Violation("rule-without-listener-callback", &core.Case{Kind: "artefact", Text: r}, "Enter"+r, "missing")
			}
		}
	}
}

// prepass replicates the documented pre-pass of the DSL reader: comment lines are blanked, ' #' tails and
// trailing blanks are cut, trailing line feeds are dropped.
func prepass(s string) string {
	lines := strings.Split(cleanComments(s), "\n")
	for i := range lines {
		lines[i] = strings.TrimRight(lines[i], " ")
	}
	return strings.TrimRight(strings.Join(lines, "\n"), "\n")
}

func trimEmpty(xs []string) []string {
	for len(xs) > 0 && xs[len(xs)-1] == "" {
		xs = xs[:len(xs)-1]
	}
	return xs
}

// tokenTexts: literal names from the live vocabulary plus sample texts for the non-literal tokens.
func tokenTexts() map[string][]string {
	lx := parser.NewOpenFGALexer(antlr.NewInputStream(""))
	text := map[string][]string{}
	for i, n := range lx.SymbolicNames {
		if n == "" {
			continue
		}
		if i < len(lx.LiteralNames) && lx.LiteralNames[i] != "" {
			text[n] = []string{strings.Trim(lx.LiteralNames[i], "'")}
		}
	}
	text["WHITESPACE"] = []string{" ", "  ", "\t"}
	text["NEWLINE"] = []string{"\n", "\n  ", "\r\n", "\n\n"}
	text["IDENTIFIER"] = []string{"abc", "x_1", "a-b", "viewer"}
	text["EXTENDED_IDENTIFIER"] = []string{"a.b", "a/b", "x.y/z"}
	text["SCHEMA_VERSION"] = []string{"1.1", "1.2"}
	text["CONDITION_PARAM_TYPE"] = []string{"int", "string", "ipaddress"}
	text["CONDITION_PARAM_CONTAINER"] = []string{"list", "map"}
	text["STRING"] = []string{"\"s\"", "'t'"}
	text["BYTES"] = []string{"b\"x\""}
	text["NUM_INT"] = []string{"12", "0x1F"}
	text["NUM_UINT"] = []string{"3u"}
	text["NUM_FLOAT"] = []string{"1.5", "2e3"}
	text["RBRACKET"] = nil
	text["CEL_COMMENT"] = nil
	text["EOF"] = []string{""}
	return text
}

func runC19(run *core.Run) {
	run.Level = "translation_validation"
	run.Rule = "layers 1-3: serialized ATN of parser and lexer extracted from the Go, TypeScript and Java sources and from the six .interp files, decoded and compared; fed to the real ATN deserializer and compared with the live recogniser; rule / literal / symbolic / mode name tables of the three packages, of the live Go recogniser and of the two .g4 files compared in order; listener method set vs. grammar rules; layer 4: for every text the token-type sequence of the real generated lexer is given to an Earley recogniser built from OpenFGAParser.g4 as it is on disk and to the real generated parser - accept <=> accept; texts = G2 renderings, G4 token-level mutants, and for every production of the grammar the shortest sentence using it in several spellings; layer 5: on accepted texts every rule node of the tree built by the generated Go parser must have children (token names, sub-tree rule names) derivable from the node's rule in the .g4 (Earley on the tree grammar); non-trivial = text on which both sides were run; distinct by token-type sequence"
	artefactConformance(run)
	g, err := parserGrammar()
	if err != nil {
		run.Violation("cannot-read-parser-grammar", &core.Case{Kind: "artefact"}, "OpenFGAParser.g4", err.Error())
		return
	}
	run.Count("grammar_productions", int64(g.NumProds()))
	// layer 6: the generated lexer against OpenFGALexer.g4 on disk
	spec, lerr := lexSpec()
	if lerr != nil {
		run.Inconclusive("layer 6 (lexer conformance) not run: OpenFGALexer.g4 cannot be read into the executable form: %v", lerr)
		spec = nil
	} else {
		lexerWorkload(run, spec)
	}
	run.Count("grammar_rules", int64(len(g.Rules)))
	// production-targeted sentences
	text := tokenTexts()
	variants := run.N(4, 12)
	type job struct {
		pi, variant int
	}
	var jobs []job
	for pi := 0; pi < g.NumProds(); pi++ {
		for v := 0; v < variants; v++ {
			jobs = append(jobs, job{pi, v})
		}
	}
	core.Parallel(len(jobs), func(i int) {
		j := jobs[i]
		names, ok := g.TargetedSentence("main", j.pi)
		if !ok {
			run.Count("unreachable_productions", 1)
			return
		}
		r := run.Rng("c19-target", i)
		var sb strings.Builder
		for _, n := range names {
			if strings.HasPrefix(n, "~") {
				n = "IDENTIFIER"
			}
			ts := text[n]
			if n == "EOF" {
				continue
			}
			if len(ts) == 0 {
				run.Count("targeted_sentences_without_text", 1)
				return
			}
			sb.WriteString(ts[(j.variant+r.Intn(len(ts)))%len(ts)])
		}
		grammarVsParser(run, g, sb.String(), "targeted: "+g.ProdString(j.pi))
		if spec != nil {
			lexerConforms(run, spec, sb.String(), "targeted sentence")
		}
		run.Count("targeted_sentences", 1)
		run.SampleAt(i, len(jobs)/2+1, func() any { return map[string]string{"production": g.ProdString(j.pi), "text": sb.String()} })
	})
	// G2 renderings (also the guard of the renderer) and G4 mutants
	n := run.N(20000, 400000)
	corpus := gen.Corpus()
	core.Parallel(n, func(i int) {
		r := run.Rng("c19", i)
		var txt string
		switch r.Intn(4) {
		case 0:
			txt = gen.Mutate(r, corpus[r.Intn(len(corpus))])
		case 1:
			d := (&gen.DSLGen{R: r}).Doc(r.Intn(3) == 0)
			txt = gen.Mutate(r, d.Render(&gen.Layout{R: r, Wild: r.Intn(2) == 0, CRLF: r.Intn(5) == 0}))
		default:
			d := (&gen.DSLGen{R: r}).Doc(r.Intn(3) == 0)
			txt = d.Render(&gen.Layout{R: r, Wild: r.Intn(4) != 0, CRLF: r.Intn(5) == 0, Comments: false})
			// the grammar describes the text after the documented pre-pass (comment lines, ' #' tails, trailing blanks)
			tk, lexErrs := lexNames(prepass(txt))
			if lexErrs > 0 || !g.Accepts("main", tk) {
				// the renderer produced something the grammar on disk does not derive: harness/grammar mismatch
				run.Count("g2_renderings_rejected_by_grammar", 1)
				run.Note("G2 rendering not derivable from the grammar: %q", txt)
			} else {
				run.Count("g2_renderings_accepted_by_grammar", 1)
			}
		}
		if len(txt) > 1500 {
			txt = txt[:1500]
		}
		grammarVsParser(run, g, txt, "G2/G4")
		if spec != nil {
			lexerConforms(run, spec, txt, "G2/G4")
		}
		run.SampleAt(i, n/2+1, func() any { return txt })
	})
	if k := run.Counter("g2_renderings_rejected_by_grammar"); k > 0 {
		run.Inconclusive("%d G2 renderings are not derivable from OpenFGAParser.g4 as it is on disk: the renderer (trusted base of C03/C09/C16) and the grammar disagree", k)
	}
	run.Assumptions = append(run.Assumptions, "JS and Java packages are compared as artefacts (automata, vocabularies); their hand-written listeners are not executed (no node_modules / gradle cache offline)",
		"an edit confined to the lexer grammar that keeps every name and literal is not detected (DESIGN section 8)")
	progs := run.Counter("targeted_sentences") + int64(n)
	run.Extra = map[string]any{"programs": progs, "disagreements_checked": run.Counter("violations_total")}
}

func replayC19(run *core.Run, c *core.Case) {
	if c.Kind == "artefact" {
		artefactConformance(run)
		return
	}
	if c.Kind == "lexer-text" {
		spec, err := lexSpec()
		if err != nil {
			fmt.Println(err)
			return
		}
		lexerConforms(run, spec, c.DSL, "replay")
		return
	}
	g, err := parserGrammar()
	if err != nil {
		fmt.Println(err)
		return
	}
	grammarVsParser(run, g, c.DSL, "replay")
}
