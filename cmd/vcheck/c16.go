package main

import (
	"fmt"
	"strings"

	"github.com/openfga/language/pkg/go/transformer"

	"verif/internal/core"
	"verif/internal/gen"
)

// C16: error positions lie inside the input (all rejected inputs) and on the offending text
// (listener errors: renderer marks; merge conflicts: declaration sites, finding K2 recognised by the
// bug-compatible naive lookup).

func init() { register("C16", runC16, replayC16, 200) }

func boundsCheck(run *core.Run, txt string, how string) {
	run.Guard(&core.Case{Kind: "bounds", DSL: txt, Extra: map[string]string{"how": how}}, func() { boundsCheck1(run, txt, how) })
}

func boundsCheck1(run *core.Run, txt string, how string) {
	_, err := transformer.TransformDSLToProto(txt)
	run.Eval(1)
	if err == nil {
		return
	}
	run.Count("rejected_inputs_bounds_checked", 1)
	es := errRe.FindAllStringSubmatch(err.Error(), -1)
	run.Count("error_positions_bounds_checked", int64(len(es)))
	if len(es) == 0 {
		run.Violation("error-without-position", &core.Case{Kind: "bounds", DSL: txt}, "syntax error at line=L, column=C", err.Error())
		return
	}
	if why := boundsViolation(txt, err.Error()); why != "" {
		run.Violation("position-out-of-bounds", &core.Case{Kind: "bounds", DSL: txt, Extra: map[string]string{"how": how}},
			"0 <= line < number of input lines, 0 <= column <= code points of that line", why)
		return
	}
	lines := strings.Count(txt, "\n")
	if lines > 3 {
		run.NonTrivial(txt)
	}
}

func runC16(run *core.Run) {
	run.Rule = "(a) bounds: every 'line=L, column=C' of every error returned for rejected G4 mutants of the corpus and of G2 texts (with leading comments, blank lines, CRLF, non-ASCII) checked against the input; (b) exact: C09 injections duplicate relation / condition / parameter, extend in a model, repeated extend - some error must sit exactly on the renderer-recorded mark of the offending name, under random layouts and comment placements; (c) merge conflicts of G3 with layouts hostile to textual lookup - file and line must be a declaration site of that name and kind, deviations equal to the known naive lookup are finding K2, anything else a violation; non-trivial = rejected input of more than 3 lines / injected text / conflict set; distinct by text"
	corpus := gen.Corpus()
	nMut := run.N(40000, 600000)
	core.Parallel(nMut, func(i int) {
		r := run.Rng("c16-mut", i)
		var base string
		if r.Intn(3) == 0 {
			g := &gen.DSLGen{R: r}
			base = g.Doc(r.Intn(4) == 0).Render(&gen.Layout{R: r, Wild: true, Comments: true, CRLF: r.Intn(3) == 0, Mixed: r.Intn(4) == 0})
		} else {
			base = corpus[r.Intn(len(corpus))]
		}
		s := gen.Mutate(r, base)
		if r.Intn(5) == 0 {
			// push the defect down behind comments and blank lines
			s = strings.Repeat([]string{"# c\n", "\n", "  # é comment\n", " \n"}[r.Intn(4)], 1+r.Intn(4)) + s
		}
		boundsCheck(run, s, "G4")
		run.SampleAt(i, nMut/2+1, func() any { return s })
	})
	// exact positions of listener errors
	runInjections(run, run.N(5000, 80000), run.N(200, 4000))
	// merge conflicts
	nMerge := run.N(4000, 80000)
	core.Parallel(nMerge, func(i int) {
		r := run.Rng("c16-merge", i)
		files := genFileSet(r, mergeGenOpt{HostileText: true, Conflicts: 1 + r.Intn(2)})
		exp := mergeOracle(files, "1.2")
		if len(exp.Conflicts) == 0 {
			return
		}
		cf := toCoreFiles(files)
		checkMerge(run, cf, exp, r, 0)
		var sb strings.Builder
		for _, f := range cf {
			sb.WriteString(f.Name + "\x00" + f.Contents + "\x00")
		}
		run.NonTrivial(sb.String())
		run.SampleAt(i, nMerge/2+1, func() any { return map[string]any{"files": cf, "conflicts": exp.Conflicts} })
	})
	if _, ok := run.FindingListed("K2"); ok {
		// committed witness of K2
		if c, err := core.LoadCase(core.Root + "/findings/K2.json"); err == nil {
			replayMerge(run, c)
		} else {
			run.Note("K2 witness missing: %v", err)
		}
	}
}

func replayC16(run *core.Run, c *core.Case) {
	switch c.Kind {
	case "bounds":
		boundsCheck(run, c.DSL, "replay")
	case "injection":
		injectionVerdict(run, c)
	case "merge":
		replayMerge(run, c)
	default:
		fmt.Println("unknown case kind", c.Kind)
	}
}
