package main

import (
	"fmt"
	"regexp"
	"strings"

	openfgav1 "github.com/openfga/api/proto/openfga/v1"
	"github.com/openfga/language/pkg/go/transformer"
	"google.golang.org/protobuf/encoding/prototext"
	"google.golang.org/protobuf/proto"

	"verif/internal/core"
	"verif/internal/gen"
)

// C03: every grammatical layout parses, and to exactly the model written.

func init() { register("C03", runC03, replayC03, 200) }

func wsExprs(m *openfgav1.AuthorizationModel) *openfgav1.AuthorizationModel {
	c := proto.Clone(m).(*openfgav1.AuthorizationModel)
	for _, cd := range c.GetConditions() {
		cd.Expression = strings.Join(strings.Fields(cd.Expression), " ")
	}
	return c
}

var celComment = regexp.MustCompile(`//[^\n]*`)

// stripCelComments is the bug-compatible secondary oracle of finding K3: what the expression looks like when
// the lexer has sent `// …` to the hidden channel.
func stripCelComments(m *openfgav1.AuthorizationModel) *openfgav1.AuthorizationModel {
	c := proto.Clone(m).(*openfgav1.AuthorizationModel)
	for _, cd := range c.GetConditions() {
		cd.Expression = celComment.ReplaceAllString(cd.Expression, "")
	}
	return c
}

func hasCelComment(m *openfgav1.AuthorizationModel) bool {
	for _, cd := range m.GetConditions() {
		if strings.Contains(cd.GetExpression(), "//") {
			return true
		}
	}
	return false
}

// parseAndCompare feeds one rendering to the parser and compares with the model that was written.
func parseAndCompare(run *core.Run, txt string, modular bool, exp *openfgav1.AuthorizationModel, expExt map[string]*openfgav1.TypeDefinition, how string) (ok bool) {
	run.Guard(&core.Case{Kind: "layout", DSL: txt, Model: modelJSON(exp), Extra: map[string]string{"modular": fmt.Sprint(modular), "how": how}}, func() {
		ok = parseAndCompare1(run, txt, modular, exp, expExt, how)
	})
	return ok
}

func parseAndCompare1(run *core.Run, txt string, modular bool, exp *openfgav1.AuthorizationModel, expExt map[string]*openfgav1.TypeDefinition, how string) bool {
	c := &core.Case{Kind: "layout", DSL: txt, Model: modelJSON(exp), Extra: map[string]string{"modular": fmt.Sprint(modular), "how": how}}
	if expExt != nil {
		var ks []string
		for k := range expExt {
			ks = append(ks, k)
		}
		c.Strs = ks
	}
	var got *openfgav1.AuthorizationModel
	var ext map[string]*openfgav1.TypeDefinition
	var err error
	if modular {
		got, ext, err = transformer.TransformModularDSLToProto(txt)
	} else {
		got, err = transformer.TransformDSLToProto(txt)
	}
	run.Eval(1)
	if err != nil {
		// guard of the renderer (DESIGN §3-G2): the rendering must be derivable from the grammar as it is on disk;
		// if it is not, renderer and grammar disagree - a harness problem, never a violation
		if g, gerr := parserGrammar(); gerr == nil {
			tk, lexErrs := lexNames(prepass(txt))
			// the recogniser is cubic: texts of more than 3000 tokens (the very long lines) go without the guard
			if len(tk) <= 3000 && (lexErrs > 0 || !g.Accepts("main", tk)) {
				run.Count("renderings_not_derivable_from_grammar_on_disk", 1)
				if run.Counter("renderings_not_derivable_from_grammar_on_disk") == 1 {
					run.Inconclusive("a rendering is rejected by the parser and is not derivable from OpenFGAParser.g4 as it is on disk: renderer and grammar disagree: %q", txt)
				}
				return false
			}
		}
		run.Violation("grammatical-layout-rejected", c, "accepted", err.Error())
		return false
	}
	if !parsedFinite(run, c, got) {
		return false
	}
	for _, td := range ext {
		if !parsedFinite(run, c, &openfgav1.AuthorizationModel{TypeDefinitions: []*openfgav1.TypeDefinition{td}}) {
			return false
		}
	}
	if !proto.Equal(wsExprs(exp), wsExprs(got)) {
		if hasCelComment(exp) && proto.Equal(wsExprs(stripCelComments(exp)), wsExprs(got)) {
			if _, ok := run.FindingListed("K3"); ok {
				run.Known("K3")
				return true
			}
		}
		run.Violation("parsed-model-differs-from-written", c, prototext.Format(wsExprs(exp)), prototext.Format(wsExprs(got)))
		return false
	}
	if modular {
		bad := len(ext) != len(expExt)
		for k, v := range expExt {
			if !proto.Equal(wsExprs1(v), wsExprs1(ext[k])) {
				bad = true
			}
			// the extension map must refer to the type definition objects of the returned model
			found := false
			for _, td := range got.GetTypeDefinitions() {
				if td == ext[k] {
					found = true
				}
			}
			if ext[k] != nil && !found {
				bad = true
			}
		}
		if bad {
			run.Violation("extension-map-differs", c, fmt.Sprint(keysOf(expExt)), fmt.Sprint(keysOf(ext)))
			return false
		}
	}
	return true
}

func wsExprs1(td *openfgav1.TypeDefinition) *openfgav1.TypeDefinition { return td }

func keysOf(m map[string]*openfgav1.TypeDefinition) []string {
	var ks []string
	for k := range m {
		ks = append(ks, k)
	}
	return ks
}

// enumerateLayouts renders doc under every combination of the reduced layout options (odometer over the
// arities the renderer asks for), up to limit texts. Returns number of texts and whether the space was exhausted.
func enumerateLayouts(d *gen.Doc, crlf bool, limit int, f func(txt string)) (int, bool) {
	var prefix []int
	var arity []int
	total := 0
	for {
		pos := 0
		arity = arity[:0]
		l := &gen.Layout{Small: true, Wild: true, CRLF: crlf, Comments: true}
		l.Choose = func(n int) int {
			v := 0
			if pos < len(prefix) {
				v = prefix[pos]
			}
			arity = append(arity, n)
			pos++
			return v
		}
		txt := d.Render(l)
		total++
		f(txt)
		cur := make([]int, len(arity))
		copy(cur, prefix)
		i := len(arity) - 1
		for i >= 0 {
			if cur[i]+1 < arity[i] {
				cur[i]++
				cur = cur[:i+1]
				break
			}
			i--
		}
		if i < 0 {
			return total, true
		}
		if total >= limit {
			return total, false
		}
		prefix = cur
	}
}

func tinyDocs() []*gen.Doc {
	direct := &gen.Expr{Kind: "direct", Restr: []gen.Restriction{{Type: "user"}, {Type: "g", Relation: "m", Cond: "c"}}}
	direct1 := &gen.Expr{Kind: "direct", Restr: []gen.Restriction{{Type: "user", Wildcard: true}}}
	return []*gen.Doc{
		{Schema: "1.1"},
		{Schema: "1.1", Types: []gen.TypeDef{{Name: "user"}}},
		{Schema: "1.1", Types: []gen.TypeDef{{Name: "t", Rels: []gen.Relation{{Name: "r", Expr: &gen.Expr{Kind: "computed", Name: "x"}}}}}},
		{Schema: "1.1", Types: []gen.TypeDef{{Name: "t", Rels: []gen.Relation{{Name: "r", Expr: &gen.Expr{Kind: "direct", Restr: []gen.Restriction{{Type: "user"}}}}}}}},
		{Schema: "1.1", Types: []gen.TypeDef{{Name: "t", Rels: []gen.Relation{{Name: "r", Expr: &gen.Expr{Kind: "or", Kids: []*gen.Expr{{Kind: "computed", Name: "a"}, {Kind: "ttu", Name: "b", Tupleset: "p"}}}}}}}},
		{Schema: "1.1", Conds: []gen.Cond{{Name: "c", Params: []gen.Param{{Name: "x", Type: "int"}}, Expr: "x < 1"}}},
		{Module: "m", Types: []gen.TypeDef{{Name: "t", Extend: true}}},
		{Schema: "1.1", Types: []gen.TypeDef{{Name: "t", Rels: []gen.Relation{{Name: "r", Expr: &gen.Expr{Kind: "paren", Kids: []*gen.Expr{{Kind: "and", Kids: []*gen.Expr{direct, {Kind: "computed", Name: "a"}}}}}}}}}},
		// thorough only from here
		{Module: "type", Types: []gen.TypeDef{{Name: "module"}, {Name: "extend", Extend: true}}},
		{Schema: "1.2", Types: []gen.TypeDef{{Name: "model"}, {Name: "schema"}}},
		{Schema: "1.1", Types: []gen.TypeDef{{Name: "a.b/c", Rels: []gen.Relation{{Name: "type", Expr: &gen.Expr{Kind: "butnot", Kids: []*gen.Expr{direct1, {Kind: "computed", Name: "relation"}}}}}}}},
		{Schema: "1.1", Conds: []gen.Cond{{Name: "c", Params: []gen.Param{{Name: "x", Type: "list", Generic: "string"}, {Name: "y", Type: "map", Generic: "int"}}, Expr: "x ==\n  y"}}},
		{Module: "m", Types: []gen.TypeDef{{Name: "t", Extend: true, Rels: []gen.Relation{{Name: "r", Expr: &gen.Expr{Kind: "ttu", Name: "a", Tupleset: "b"}}}}}},
		{Schema: "1.1", Types: []gen.TypeDef{{Name: "t", Rels: []gen.Relation{{Name: "r", Expr: &gen.Expr{Kind: "paren", Kids: []*gen.Expr{{Kind: "paren", Kids: []*gen.Expr{{Kind: "computed", Name: "x"}}}}}}}}}},
		{Schema: "1.1", Types: []gen.TypeDef{{Name: "t", Rels: []gen.Relation{{Name: "r", Expr: &gen.Expr{Kind: "and", Kids: []*gen.Expr{{Kind: "computed", Name: "a"}, {Kind: "paren", Kids: []*gen.Expr{{Kind: "or", Kids: []*gen.Expr{{Kind: "computed", Name: "b"}, {Kind: "computed", Name: "c"}}}}}}}}}}}},
		{Schema: "1.1", Types: []gen.TypeDef{{Name: "t"}, {Name: "u", Rels: []gen.Relation{{Name: "a", Expr: &gen.Expr{Kind: "computed", Name: "b"}}, {Name: "b", Expr: direct1}}}}},
	}
}

func runC03(run *core.Run) {
	run.Rule = "G2: one AST -> (a) the model that was written, derived without the parser, (b) renderings choosing at every layout point among the options both grammars allow (indentation with spaces/tabs, blank and comment lines, CRLF, trailing comments, spaces around brackets/commas/colons, multi-line restrictions, redundant parentheses, final newline); random layouts for random ASTs (model and module files) plus exhaustive odometer enumeration of a reduced option set for tiny ASTs; non-trivial = wild layout of an AST with >=1 relation or condition; distinct by text"
	// K3 witness
	if f, ok := run.FindingListed("K3"); ok {
		d := &gen.Doc{Schema: "1.1", Conds: []gen.Cond{{Name: "c", Params: []gen.Param{{Name: "x", Type: "int"}}, Expr: "x > 1 // note"}}}
		exp, _ := d.Expected()
		parseAndCompare(run, d.Render(&gen.Layout{}), false, exp, nil, "witness "+f.ID)
	}
	n := run.N(12000, 400000)
	core.Parallel(n, func(i int) {
		r := run.Rng("c03", i)
		g := &gen.DSLGen{R: r}
		if i%800 == 77 {
			g.ForceDeep = 40 + r.Intn(50)
			run.Count("documents_with_40_to_90_nested_groups", 1)
		}
		modular := r.Intn(3) == 0
		d := g.Doc(modular)
		if r.Intn(25) == 0 && len(d.Conds) > 0 {
			d.Conds[0].Expr = []string{"x > 1 // note", "a == b // c\n  && d", "// leading\n  x"}[r.Intn(3)]
		}
		exp, expExt := d.Expected()
		if !modular {
			expExt = nil
		}
		first := ""
		reps := 1 + r.Intn(3)
		for k := 0; k < reps; k++ {
			l := &gen.Layout{R: r, Wild: r.Intn(6) != 0, CRLF: r.Intn(4) == 0, Comments: r.Intn(2) == 0}
			l.ExprComments = l.Comments && r.Intn(3) == 0
			if i%8 == 3 && k == 0 && l.Wild {
				l.Mixed = true // LF and CRLF line ends mixed in one file
				run.Count("texts_with_mixed_line_ends", 1)
			}
			if i%64 == 7 && k == 0 {
				l.Long = 66000 + r.Intn(9000) // a comment line longer than 64 KiB
				run.Count("texts_with_a_line_over_64KiB", 1)
			}
			txt := d.Render(l)
			if k == 0 && l.Long == 0 {
				first = txt
			}
			ok := parseAndCompare(run, txt, modular, exp, expExt, "random layout")
			if ok && l.Wild && (len(exp.GetConditions()) > 0 || hasAnyRelation(exp)) {
				run.NonTrivial(txt)
			}
			if l.CRLF {
				run.Count("crlf_texts", 1)
			}
		}
		if modular {
			run.Count("module_file_asts", 1)
		} else {
			run.Count("model_file_asts", 1)
		}
		run.SampleAt(i, n/3+1, func() any { return first })
	})
	// very long code lines (definitions cannot be wrapped): thousands of restrictions / operands on one line
	for _, long := range []*gen.Doc{
		{Schema: "1.1", Types: []gen.TypeDef{{Name: "t", Rels: []gen.Relation{{Name: "r", Expr: manyRestrictions(9000)}}}, {Name: "after", Rels: []gen.Relation{{Name: "x", Expr: &gen.Expr{Kind: "computed", Name: "y"}}}}},
			Conds: []gen.Cond{{Name: "c", Params: []gen.Param{{Name: "x", Type: "int"}}, Expr: "x < 1"}}},
		{Module: "m", Types: []gen.TypeDef{{Name: "t", Rels: []gen.Relation{{Name: "r", Expr: manyOperands(11000)}}}, {Name: "after", Extend: true, Rels: []gen.Relation{{Name: "x", Expr: &gen.Expr{Kind: "computed", Name: "y"}}}}}},
	} {
		exp, expExt := long.Expected()
		if long.Module == "" {
			expExt = nil
		}
		txt := long.Render(&gen.Layout{})
		if parseAndCompare(run, txt, long.Module != "", exp, expExt, "very long code line") {
			run.Count("texts_with_a_code_line_over_64KiB", 1)
		}
	}
	// exhaustive layouts of tiny ASTs
	docs := tinyDocs()
	limit := 20000
	if run.Tier == "thorough" {
		limit = 400000
	} else {
		docs = docs[:8]
	}
	type job struct {
		d    *gen.Doc
		crlf bool
	}
	var jobs []job
	for _, d := range docs {
		jobs = append(jobs, job{d, false}, job{d, true})
	}
	core.Parallel(len(jobs), func(i int) {
		j := jobs[i]
		exp, expExt := j.d.Expected()
		modular := j.d.Module != ""
		if !modular {
			expExt = nil
		}
		total, exhausted := enumerateLayouts(j.d, j.crlf, limit, func(txt string) {
			if parseAndCompare(run, txt, modular, exp, expExt, "enumerated layout") {
				run.NonTrivial(txt)
			}
		})
		run.Count("enumerated_layout_texts", int64(total))
		if exhausted {
			run.Count("asts_with_layout_space_exhausted", 1)
		} else {
			run.Count("asts_with_layout_space_capped", 1)
		}
	})
}

func hasAnyRelation(m *openfgav1.AuthorizationModel) bool {
	for _, td := range m.GetTypeDefinitions() {
		if len(td.GetRelations()) > 0 {
			return true
		}
	}
	return false
}

func replayC03(run *core.Run, c *core.Case) {
	exp, err := modelFromJSON(c.Model)
	if err != nil {
		fmt.Println("cannot load expected model:", err)
		return
	}
	modular := c.Extra["modular"] == "true"
	var expExt map[string]*openfgav1.TypeDefinition
	if modular {
		expExt = map[string]*openfgav1.TypeDefinition{}
		for _, k := range c.Strs {
			for _, td := range exp.GetTypeDefinitions() {
				if td.GetType() == k {
					expExt[k] = td
				}
			}
		}
	}
	parseAndCompare(run, c.DSL, modular, exp, expExt, "replay")
}

func manyRestrictions(n int) *gen.Expr {
	e := &gen.Expr{Kind: "direct"}
	for i := 0; i < n; i++ {
		e.Restr = append(e.Restr, gen.Restriction{Type: "user", Relation: fmt.Sprintf("r%d", i%7)})
	}
	return e
}

func manyOperands(n int) *gen.Expr {
	e := &gen.Expr{Kind: "or"}
	for i := 0; i < n; i++ {
		e.Kids = append(e.Kids, &gen.Expr{Kind: "computed", Name: fmt.Sprintf("r%d", i%9)})
	}
	return e
}
