package main

import (
	"errors"
	"fmt"
	"math/rand"
	"sort"
	"strings"
	"sync"

	openfgav1 "github.com/openfga/api/proto/openfga/v1"
	"github.com/openfga/language/pkg/go/graph"
	"google.golang.org/protobuf/encoding/protojson"
	"google.golang.org/protobuf/proto"

	"verif/internal/core"
	"verif/internal/gen"
	"verif/internal/ref"
)

// Shared pipeline of the weighted-graph properties C04, C05, C06, C10, C11. Every property runs the same
// observations (real Build repeated, hook-enumerated start orders, reference model R1) and reports only
// its own aspect; disagreements that belong to a sibling property are counted under "sibling_*".

type wgOutcome struct {
	accepted bool
	errClass string // modelcycle | tuplecycle | invalid | other
	canon    string
	g        *graph.WeightedAuthorizationModelGraph
}

func classify(err error) string {
	switch {
	case errors.Is(err, graph.ErrModelCycle):
		return "modelcycle"
	case errors.Is(err, graph.ErrTupleCycle):
		return "tuplecycle"
	case errors.Is(err, graph.ErrInvalidModel):
		return "invalid"
	}
	return "other:" + err.Error()
}

func modelJSON(m *openfgav1.AuthorizationModel) string {
	b, err := protojson.Marshal(m)
	if err != nil {
		return "marshal error: " + err.Error()
	}
	return string(b)
}

func modelFromJSON(s string) (*openfgav1.AuthorizationModel, error) {
	m := &openfgav1.AuthorizationModel{}
	if err := protojson.Unmarshal([]byte(s), m); err != nil {
		return nil, err
	}
	return m, nil
}

func nonTerminals(g *graph.WeightedAuthorizationModelGraph) []string {
	var nt []string
	for id, nd := range g.GetNodes() {
		if nd.GetNodeType() != graph.SpecificType && nd.GetNodeType() != graph.SpecificTypeWildcard {
			nt = append(nt, id)
		}
	}
	sort.Strings(nt)
	return nt
}

func allNodeIDs(g *graph.WeightedAuthorizationModelGraph) []string {
	var nt []string
	for id := range g.GetNodes() {
		nt = append(nt, id)
	}
	sort.Strings(nt)
	return nt
}

func permsOf(n int, f func([]int)) {
	xs := make([]int, n)
	for i := range xs {
		xs[i] = i
	}
	var rec func(k int)
	rec = func(k int) {
		if k == n {
			f(xs)
			return
		}
		for i := k; i < n; i++ {
			xs[k], xs[i] = xs[i], xs[k]
			rec(k + 1)
			xs[k], xs[i] = xs[i], xs[k]
		}
	}
	rec(0)
}

// startOrders enumerates start orders over n non-terminal nodes: exhaustively when n! <= maxOrders,
// otherwise every choice of first node followed by a seeded shuffle plus extra seeded permutations.
func startOrders(n int, maxOrders int, r *rand.Rand, f func([]int)) (exhaustive bool) {
	fact := 1
	for i := 2; i <= n; i++ {
		fact *= i
		if fact > maxOrders {
			break
		}
	}
	if fact <= maxOrders {
		permsOf(n, f)
		return true
	}
	budget := maxOrders
	for a := 0; a < n && budget > 0; a++ {
		o := r.Perm(n)
		for i, v := range o {
			if v == a {
				o[0], o[i] = o[i], o[0]
			}
		}
		f(o)
		budget--
	}
	for budget > 0 {
		f(r.Perm(n))
		budget--
	}
	return false
}

type wgOpts struct {
	builds    int // repeated real builds (map orders)
	maxOrders int // hook start orders
	typePerms int
	opndPerms int
}

// checkWeightedModel runs all weighted-graph monitors on one model for property run.Prop.
func checkWeightedModel(run *core.Run, m *openfgav1.AuthorizationModel, r *rand.Rand, o wgOpts) {
	run.Guard(&core.Case{Kind: "model", Model: modelJSON(m)}, func() { checkWeightedModel1(run, m, r, o) })
}

func checkWeightedModel1(run *core.Run, m *openfgav1.AuthorizationModel, r *rand.Rand, o wgOpts) {
	c := &core.Case{Kind: "model", Model: modelJSON(m)}
	prop := run.Prop
	type pending struct{ p, class, exp, obs string }
	var deferred []pending
	deferring := false
	immediate := 0
	viol := func(p, class, exp, obs string) {
		if deferring {
			deferred = append(deferred, pending{p, class, exp, obs})
			return
		}
		immediate++
		if p == prop {
			run.Violation(class, c, exp, obs)
		} else {
			run.Count("sibling_"+p+"_"+class, 1)
		}
	}
	snapshot := proto.Clone(m).(*openfgav1.AuthorizationModel)
	order0 := typeOrder(m)

	R := ref.Build(m, false)
	v := R.Analyse()
	want := "accept"
	if !v.OK {
		want = "reject (" + v.Reason + ")"
	}

	outcomes := map[string]int{} // verdict+canon -> count
	var firstAccepted *graph.WeightedAuthorizationModelGraph
	badObservations := 0
	observe := func(g *graph.WeightedAuthorizationModelGraph, err error, how string) {
		run.Eval(1)
		nDeferred := len(deferred)
		defer func() {
			if len(deferred) > nDeferred {
				badObservations++
			}
		}()
		if err != nil {
			cls := classify(err)
			outcomes["ERR"]++
			if strings.HasPrefix(cls, "other:") {
				viol("C05", "error-not-a-sentinel", "an error wrapping ErrModelCycle, ErrTupleCycle or ErrInvalidModel", how+": "+err.Error())
			}
			if v.OK {
				viol("C05", "rejects-well-founded", want, how+": rejected with "+cls+"\n"+gen.PPModel(m))
			}
			return
		}
		if g == nil {
			viol("C05", "nil-graph-nil-error", want, how+": nil graph and nil error")
			return
		}
		// independent of the reference verdict: an accepted graph never shows a placeholder or an empty map
		for id, nd := range g.GetNodes() {
			if nd.GetNodeType() == graph.SpecificType || nd.GetNodeType() == graph.SpecificTypeWildcard {
				continue
			}
			if len(nd.GetWeights()) == 0 {
				viol("C04", "empty-weight-map", "every relation and operator node of an accepted graph has weights", how+": node "+id+" has an empty weight map\n"+gen.PPModel(m))
			}
			for k := range nd.GetWeights() {
				if strings.HasPrefix(k, "R#") {
					viol("C04", "placeholder-visible", "no unresolved cycle placeholder", how+": node "+id+" carries "+k+"\n"+gen.PPModel(m))
				}
			}
		}
		if !v.OK {
			outcomes["OK"]++
			viol("C05", "accepts-not-well-founded:"+v.Reason, want, how+": accepted\n"+gen.PPModel(m))
			if R.Reach {
				// the reach sets are valid although the verdict is negative (empty intersection / relation):
				// C04's "weights for exactly the user types that can reach the node" is still decidable
				for _, d := range ref.CompareReach(g, R) {
					viol("C04", "weight-keys-differ-from-reachable-types", "weight keys = user types that can reach the node", how+": "+d.Msg+"\n"+gen.PPModel(m))
				}
			}
			return
		}
		canon := ref.CanonWeighted(g)
		outcomes["OK:"+canon]++
		if firstAccepted == nil {
			firstAccepted = g
		}
		for _, d := range ref.CompareWeighted(g, R, false) {
			switch d.Aspect {
			case "structure":
				viol("C10", "structure", "graph structure of the reference model", how+": "+d.Msg+"\n"+gen.PPModel(m))
			case "weights":
				viol("C04", "weights", "weights of the reference model", how+": "+d.Msg+"\n"+gen.PPModel(m))
			case "wildcards":
				viol("C11", "wildcards", "wildcards of the reference model", how+": "+d.Msg+"\n"+gen.PPModel(m))
			}
		}
	}

	wgb := graph.NewWeightedAuthorizationModelGraphBuilder()
	for k := 0; k < o.builds; k++ {
		g, err := graph.NewWeightedAuthorizationModelGraphBuilder().Build(m)
		observe(g, err, fmt.Sprintf("Build #%d", k))
		if err == nil && g != nil && k == 0 {
			// API sequence: AssignWeights is public; running it again on the accepted graph must leave an accepted
			// graph that still satisfies everything (weights, wildcards, structure)
			err2 := g.AssignWeights()
			if err2 != nil {
				viol("C06", "second-AssignWeights-rejects-an-accepted-graph", "nil", err2.Error()+"\n"+gen.PPModel(m))
			} else {
				observe(g, nil, "Build #0 followed by a second AssignWeights()")
			}
			run.Count("second_AssignWeights_calls", 1)
		}
	}
	{
		// a builder value that has built OTHER models before (whatever the previous cases of this goroutine's pool
		// slot were): what it answers for this model must be what a fresh builder answers
		wb := usedBuilders.Get().(*graph.WeightedAuthorizationModelGraphBuilder)
		g, err := wb.Build(m)
		usedBuilders.Put(wb)
		observe(g, err, "Build with a builder value that built other models before")
		run.Count("builds_with_a_used_builder", 1)
	}
	realOutcomes := map[string]int{}
	for k, n := range outcomes {
		realOutcomes[k] = n
	}

	// hook: enumerated start orders
	hookOutcomes := map[string]int{}
	if o.maxOrders > 0 {
		s0, err := wgb.VerifBuildStructure(m)
		if err != nil {
			// structural rejection (TTU rules) happens before any traversal: nothing to enumerate
			run.Count("structure_rejected", 1)
		} else {
			nt0 := nonTerminals(s0)
			n := len(nt0)
			orders := 0
			realBad := immediate
			deferring = true
			before := map[string]int{}
			for k, x := range outcomes {
				before[k] = x
			}
			exh := startOrders(n, o.maxOrders, r, func(p []int) {
				s, err := wgb.VerifBuildStructure(m)
				if err != nil {
					return
				}
				nt := nonTerminals(s)
				if len(nt) != n {
					return
				}
				ord := make([]string, n)
				for i, pi := range p {
					ord[i] = nt[pi]
				}
				err = s.VerifAssignWeightsInOrder(ord)
				orders++
				if err != nil {
					observe(nil, err, fmt.Sprintf("start order %v", p))
				} else {
					observe(s, nil, fmt.Sprintf("start order %v", p))
				}
			})
			deferring = false
			for k, x := range outcomes {
				if x-before[k] > 0 {
					hookOutcomes[k] = x - before[k]
				}
			}
			// Hook fidelity (DESIGN §4): the hook repeats ~25 lines of AssignWeights. If every real build agreed
			// with the reference model and every single hook order disagrees, the hook copy has gone stale:
			// inconclusive, not a violation. Otherwise what the hook orders showed is reported.
			if len(deferred) > 0 {
				realClean := realBad == 0
				if realClean && len(realOutcomes) == 1 && badObservations == orders && len(hookOutcomes) == 1 {
					run.Inconclusive("hook VerifAssignWeightsInOrder disagrees with the reference model on every start order while the real Build agrees: hook copy stale? model:\n%s", gen.PPModel(m))
					for k := range hookOutcomes {
						delete(outcomes, k)
					}
					for k, x := range realOutcomes {
						outcomes[k] = x
					}
				} else {
					for _, d := range deferred {
						viol(d.p, d.class, d.exp, d.obs)
					}
				}
				deferred = nil
			}
			run.Count("start_orders_run", int64(orders))
			if exh {
				run.Count("models_with_exhaustive_orders", 1)
			}
			run.Max("max_nodes_in_a_model", int64(n))
		}
	}
	if len(outcomes) > 1 {
		var ks []string
		for k, n := range outcomes {
			ks = append(ks, fmt.Sprintf("x%d %s", n, strings.SplitN(k, "\n", 2)[0]))
		}
		sort.Strings(ks)
		viol("C06", "differs-across-orders-or-builds", "one outcome for one model", strings.Join(ks, " | ")+"\n"+gen.PPModel(m))
	}
	run.Max("max_distinct_outcomes_per_model", int64(len(outcomes)))

	// purity (C10: building never modifies the model)
	if !proto.Equal(snapshot, m) || typeOrder(m) != order0 {
		viol("C10", "model-modified-by-build", "model unchanged", "model differs after Build\n"+gen.PPModel(snapshot))
	}

	// C06 (b): permutations of type definitions
	base := ""
	if firstAccepted != nil {
		base = ref.CanonWeighted(firstAccepted)
	}
	for k := 0; k < o.typePerms; k++ {
		pm := proto.Clone(m).(*openfgav1.AuthorizationModel)
		r.Shuffle(len(pm.TypeDefinitions), func(i, j int) {
			pm.TypeDefinitions[i], pm.TypeDefinitions[j] = pm.TypeDefinitions[j], pm.TypeDefinitions[i]
		})
		g, err := graph.NewWeightedAuthorizationModelGraphBuilder().Build(pm)
		run.Eval(1)
		run.Count("type_permutations_built", 1)
		switch {
		case (err == nil) != v.OK:
			// verdict already reported for the original order when wrong there; here it is order dependent
			if (err == nil) != (firstAccepted != nil) {
				viol("C06", "verdict-depends-on-type-order", want, fmt.Sprintf("permuted type definitions: err=%v\n%s", err, gen.PPModel(pm)))
			}
		case err == nil && base != "" && ref.CanonWeighted(g) != base:
			viol("C06", "graph-depends-on-type-order", "same weights and wildcards", "permuted type definitions give a different graph\n"+gen.PPModel(pm))
		}
	}
	// C06 (c): permutations of union / intersection operands: relation weights unchanged
	if firstAccepted != nil {
		baseRel := relationWeights(firstAccepted)
		for k := 0; k < o.opndPerms; k++ {
			pm := proto.Clone(m).(*openfgav1.AuthorizationModel)
			changed := false
			for _, td := range pm.TypeDefinitions {
				for _, us := range td.Relations {
					if shuffleOperands(us, r) {
						changed = true
					}
				}
			}
			if !changed {
				break
			}
			g, err := graph.NewWeightedAuthorizationModelGraphBuilder().Build(pm)
			run.Eval(1)
			run.Count("operand_permutations_built", 1)
			if err != nil {
				viol("C06", "verdict-depends-on-operand-order", "accept", fmt.Sprintf("operands permuted: %v\n%s", err, gen.PPModel(pm)))
				continue
			}
			if rw := relationWeights(g); rw != baseRel {
				viol("C06", "relation-weights-depend-on-operand-order", baseRel, rw+"\n"+gen.PPModel(pm))
			}
		}
	}

	// non-triviality per property
	key := gen.PPModel(m)
	switch prop {
	case "C04":
		if v.OK && firstAccepted != nil && (R.HasCycle() || hasMultiEdgeOperand(R)) {
			run.NonTrivial(key)
			if R.HasCycle() {
				run.Count("accepted_models_with_tuple_cycle", 1)
			}
			if hasMultiEdgeOperand(R) {
				run.Count("accepted_models_with_multi_edge_operand", 1)
			}
		}
	case "C05":
		if !v.OK || R.HasCycle() {
			run.NonTrivial(key)
		}
		if v.OK {
			run.Count("well_founded_models", 1)
		} else {
			run.Count("not_well_founded:"+v.Reason, 1)
		}
	case "C06":
		if run.Counter("start_orders_run") > 0 || o.builds > 1 {
			run.NonTrivial(key)
		}
	case "C10":
		if v.OK && firstAccepted != nil && countOps(R) > 0 {
			run.NonTrivial(key)
		}
	case "C11":
		if v.OK && firstAccepted != nil && countKind(R, ref.KWild) > 0 {
			run.NonTrivial(key)
			if R.HasCycle() {
				run.Count("accepted_models_with_wildcard_and_cycle", 1)
			}
		}
	}
	if v.OK {
		run.Count("models_accepted_by_reference", 1)
	} else {
		run.Count("models_rejected_by_reference", 1)
	}
}

func typeOrder(m *openfgav1.AuthorizationModel) string {
	var p []string
	for _, td := range m.GetTypeDefinitions() {
		p = append(p, fmt.Sprintf("%s@%p", td.GetType(), td))
	}
	return strings.Join(p, ",")
}

func relationWeights(g *graph.WeightedAuthorizationModelGraph) string {
	var out []string
	for id, n := range g.GetNodes() {
		if n.GetNodeType() == graph.SpecificTypeAndRelation {
			out = append(out, id+" ["+ref.FmtW(n.GetWeights())+"]")
		}
	}
	sort.Strings(out)
	return strings.Join(out, "\n")
}

func shuffleOperands(us *openfgav1.Userset, r *rand.Rand) bool {
	changed := false
	sh := func(ch []*openfgav1.Userset) {
		if len(ch) > 1 {
			r.Shuffle(len(ch), func(i, j int) { ch[i], ch[j] = ch[j], ch[i] })
			changed = true
		}
		for _, c := range ch {
			if shuffleOperands(c, r) {
				changed = true
			}
		}
	}
	switch rw := us.GetUserset().(type) {
	case *openfgav1.Userset_Union:
		sh(rw.Union.GetChild())
	case *openfgav1.Userset_Intersection:
		sh(rw.Intersection.GetChild())
	case *openfgav1.Userset_Difference:
		if shuffleOperands(rw.Difference.GetBase(), r) {
			changed = true
		}
		if shuffleOperands(rw.Difference.GetSubtract(), r) {
			changed = true
		}
	}
	return changed
}

func hasMultiEdgeOperand(R *ref.Graph) bool {
	for _, n := range R.Nodes {
		if n.IsOp() {
			for _, op := range n.Operands {
				if len(op) > 1 {
					return true
				}
			}
		}
	}
	return false
}

func countOps(R *ref.Graph) int {
	c := 0
	for _, n := range R.Nodes {
		if n.IsOp() {
			c++
		}
	}
	return c
}

func countKind(R *ref.Graph, k ref.Kind) int {
	c := 0
	for _, n := range R.Nodes {
		if n.Kind == k {
			c++
		}
	}
	return c
}

// ---- drivers ----

func wgModelOpt(prop string) gen.ModelOpt {
	switch prop {
	case "C05":
		return gen.ModelOpt{Hazards: true}
	case "C10":
		return gen.ModelOpt{Conditions: true, Shapes: true}
	case "C11":
		return gen.ModelOpt{Wildcards: 4, Conditions: false, MaxTerm: 5, Shapes: true}
	case "C04":
		return gen.ModelOpt{Shapes: true}
	case "C06":
		return gen.ModelOpt{Hazards: true, Wildcards: 2}
	}
	return gen.ModelOpt{}
}

func runWeighted(run *core.Run) {
	var n int
	var o wgOpts
	switch run.Prop {
	case "C04":
		n, o = run.N(12000, 300000), wgOpts{builds: run.N(3, 6), maxOrders: run.N(24, 120)}
		run.Rule = "G1 random models (interlocking tuple cycles, multi-type assignments, multi-parent tuplesets); every node and edge weight map of every accepted build (real Build repeated + hook-enumerated start orders) compared with the reference model R1; non-trivial = accepted and (>=1 tuple cycle or >=1 operator operand made of several edges); distinct by model text"
	case "C05":
		n, o = run.N(5000, 100000), wgOpts{builds: run.N(4, 8), maxOrders: run.N(120, 720)}
		run.Rule = "G1 random models with planted cycle hazards; verdict of real Build (repeated) and of every hook-enumerated depth-first start order compared with R1's well-foundedness predicate; non-trivial = not well-founded or containing a cycle; distinct by model text"
	case "C06":
		n, o = run.N(6000, 120000), wgOpts{builds: run.N(4, 8), maxOrders: run.N(60, 240), typePerms: 4, opndPerms: 4}
		run.Rule = "G1 random models; outcome (verdict, canonical weights and wildcard sets) compared across repeated builds, hook-enumerated start orders, permutations of type definitions and of union/intersection operands, and concurrent builds under the race detector; non-trivial = >=2 schedules observed for the model; distinct by model text"
	case "C10":
		n, o = run.N(30000, 600000), wgOpts{builds: 2, maxOrders: 0}
		run.Rule = "G1 random models with duplicated / mixed conditioned restrictions, repeated operands and nested operators; the real graph is walked simultaneously with the reference structure (nodes, node types, labels, edge order, edge kinds, tupleset labels, ordered condition sets) and the model is snapshotted before / compared after Build; plus models without the one-`this` / distinct-TTU constraint, structure only; non-trivial = accepted with >=1 operator node; distinct by model text"
	case "C11":
		n, o = run.N(12000, 300000), wgOpts{builds: run.N(3, 6), maxOrders: run.N(24, 120)}
		run.Rule = "G1 random models with wildcard restrictions planted everywhere; wildcard lists of every node and edge of every accepted build (repeated builds and hook-enumerated start orders) compared as sets with plain reachability of T:* in R1, duplicates flagged; non-trivial = accepted with >=1 wildcard node; distinct by model text"
	}
	mopt := wgModelOpt(run.Prop)
	// regression corpus first
	for _, wm := range witnessModels() {
		checkWeightedModel(run, wm, run.Rng("witness", 0), o)
	}
	core.Parallel(n, func(i int) {
		r := run.Rng("wg", i)
		opt := mopt
		if i%7 == 3 {
			opt.MaxRel, opt.MaxObj = 7, 3
		}
		if i%23 == 2 {
			// many user / public types: long weight maps and wildcard lists (> 16 entries when two routes meet)
			opt.MaxTerm, opt.ManyRestrictions = 12, true
			if opt.Wildcards < 4 {
				opt.Wildcards = 4
			}
		}
		if i%5 == 1 && opt.MaxTerm < 4 {
			// several user types and public types: lists of three and more entries
			opt.MaxTerm = 4
			if opt.Wildcards < 3 {
				opt.Wildcards = 3
			}
		}
		m := gen.Model(r, opt)
		checkWeightedModel(run, m, r, o)
		run.SampleAt(i, n/4+1, func() any { return gen.PPModel(m) })
	})
	if run.Prop == "C04" || run.Prop == "C11" {
		runWeightedFamilies(run, o)
	}
	runWeightedBigFamilies(run, o) // all five properties: verdict, weights, structure and wildcards of large regular models
	if run.Prop == "C06" {
		// (d) 16 goroutines build one shared model under the race detector; results compared with the sequential build
		raceRun(run, "c06", run.N(150, 1500), run.N(1, 4))
	}
	if run.Prop == "C10" {
		// models without the generator's one-`this`/distinct-TTU constraint (only JSON / protobuf can carry them): the same
		// direct assignment or tuple-to-userset twice under one operator still yields one edge per distinct target.
		// Structure only - "operand" is not defined for weights once two operands share their edges (DESIGN 7-b).
		nf := run.N(8000, 150000)
		core.Parallel(nf, func(i int) {
			r := run.Rng("wg-free", i)
			m := gen.Model(r, gen.ModelOpt{Conditions: true, Shapes: true, FreeThis: true, MaxRel: 2 + i%3})
			checkStructureOnly(run, m)
		})
		// the structure must also come out right when one model / one builder value is used by many goroutines
		raceRun(run, "c06", run.N(60, 600), run.N(1, 2))
	}
}

func checkStructureOnly(run *core.Run, m *openfgav1.AuthorizationModel) {
	c := &core.Case{Kind: "model-structure", Model: modelJSON(m)}
	run.Guard(c, func() {
		R := ref.Build(m, false)
		if R.Invalid != "" {
			return
		}
		g, err := graph.NewWeightedAuthorizationModelGraphBuilder().Build(m)
		run.Eval(1)
		if err != nil || g == nil {
			run.Count("unconstrained_models_rejected", 1)
			return
		}
		run.Count("unconstrained_models_walked", 1)
		for _, d := range ref.CompareWeighted(g, R, true) {
			if d.Aspect == "structure" {
				run.Violation("structure", c, "graph structure of the reference model", d.Msg+"\n"+gen.PPModel(m))
				return
			}
		}
		if countOps(R) > 0 {
			run.NonTrivial(c.Model)
		}
	})
}

// witnessModels are the concrete inputs of the defects found during design (DESIGN §6): replayed on every run.
func witnessModels() []*openfgav1.AuthorizationModel {
	mk := func(rels map[string]*openfgav1.Userset, md map[string][]*openfgav1.RelationReference) *openfgav1.AuthorizationModel {
		td := &openfgav1.TypeDefinition{Type: "doc", Relations: rels, Metadata: &openfgav1.Metadata{Relations: map[string]*openfgav1.RelationMetadata{}}}
		for r := range rels {
			td.Metadata.Relations[r] = &openfgav1.RelationMetadata{DirectlyRelatedUserTypes: md[r]}
		}
		return &openfgav1.AuthorizationModel{SchemaVersion: "1.1", TypeDefinitions: []*openfgav1.TypeDefinition{
			{Type: "user"}, {Type: "group"}, {Type: "u3"}, td}}
	}
	type R = map[string]*openfgav1.Userset
	type M = map[string][]*openfgav1.RelationReference
	return []*openfgav1.AuthorizationModel{
		// F8
		mk(R{"a": gen.Union(gen.This(), gen.Computed("a"))}, M{"a": {gen.RefType("user"), gen.RefRel("doc", "a")}}),
		mk(R{"a": gen.Computed("a")}, M{}),
		// F9
		mk(R{"parent": gen.This(), "a": gen.TTU("a", "parent")}, M{"parent": {gen.RefType("doc")}}),
		mk(R{"a": gen.This()}, M{"a": {gen.RefRel("doc", "a")}}),
		// F10
		mk(R{"a": gen.This(), "b": gen.Inter(gen.Computed("a"), gen.This())}, M{"a": {gen.RefType("user")}, "b": {gen.RefType("user"), gen.RefType("group")}}),
		mk(R{"a": gen.This(), "b": gen.Inter(gen.This(), gen.Computed("a"))}, M{"a": {gen.RefType("u3")}, "b": {gen.RefType("user"), gen.RefType("group"), gen.RefType("u3")}}),
		mk(R{"parent": gen.This(), "v": gen.This(), "b": gen.Diff(gen.This(), gen.TTU("v", "parent"))},
			M{"parent": {gen.RefType("doc")}, "v": {gen.RefType("group")}, "b": {gen.RefType("user")}}),
	}
}

// runWeightedFamilies: structured families (rings, ladders) that random generation reaches rarely.
func runWeightedFamilies(run *core.Run, o wgOpts) {
	sizes := []int{2, 3, 5, 8}
	if run.Tier == "thorough" {
		sizes = []int{2, 3, 4, 5, 8, 12, 20, 30}
	}
	o.maxOrders = 40
	// many public types reachable along overlapping routes (lists of 9, 12, 20 entries meeting each other)
	for _, n := range []int{9, 12, 20} {
		for variant := 0; variant < 3; variant++ {
			var types []*openfgav1.TypeDefinition
			var all, half []*openfgav1.RelationReference
			for i := 0; i < n; i++ {
				tn := fmt.Sprintf("t%02d", i)
				types = append(types, &openfgav1.TypeDefinition{Type: tn})
				all = append(all, gen.RefWild(tn))
				if i%2 == 0 {
					half = append(half, gen.RefWild(tn))
				} else {
					half = append(half, gen.RefType(tn))
				}
			}
			td := &openfgav1.TypeDefinition{Type: "o", Relations: map[string]*openfgav1.Userset{"p": gen.This()},
				Metadata: &openfgav1.Metadata{Relations: map[string]*openfgav1.RelationMetadata{"p": {DirectlyRelatedUserTypes: []*openfgav1.RelationReference{gen.RefType("o")}}}}}
			set := func(rel string, us *openfgav1.Userset, refs []*openfgav1.RelationReference) {
				td.Relations[rel] = us
				td.Metadata.Relations[rel] = &openfgav1.RelationMetadata{DirectlyRelatedUserTypes: refs}
			}
			switch variant {
			case 0: // two routes with the same long list
				set("editor", gen.This(), all)
				set("viewer", gen.Union(gen.This(), gen.Computed("editor")), all)
				set("top", gen.Union(gen.Computed("viewer"), gen.Computed("editor"), gen.TTU("viewer", "p")), nil)
			case 1: // overlapping halves, under intersection and exclusion
				set("a", gen.This(), all)
				set("b", gen.This(), half)
				set("c", gen.Inter(gen.Computed("a"), gen.Computed("b")), nil)
				set("d", gen.Diff(gen.Computed("a"), gen.Computed("c")), nil)
				set("e", gen.Union(gen.Computed("c"), gen.Computed("d"), gen.This()), half)
			case 2: // long lists on a tuple cycle
				set("x", gen.Union(gen.This(), gen.TTU("y", "p")), all)
				set("y", gen.Union(gen.This(), gen.TTU("x", "p"), gen.Computed("z")), half)
				set("z", gen.This(), append(append([]*openfgav1.RelationReference{}, half...), gen.RefRel("o", "x")))
			}
			m := &openfgav1.AuthorizationModel{SchemaVersion: "1.1", TypeDefinitions: append(types, td)}
			checkWeightedModel(run, m, run.Rng("fam-wild", n*10+variant), o)
			run.Count("family_models", 1)
		}
	}
	for _, n := range sizes {
		for variant := 0; variant < 4; variant++ {
			td := &openfgav1.TypeDefinition{Type: "o", Relations: map[string]*openfgav1.Userset{"p": gen.This()},
				Metadata: &openfgav1.Metadata{Relations: map[string]*openfgav1.RelationMetadata{"p": {DirectlyRelatedUserTypes: []*openfgav1.RelationReference{gen.RefType("o")}}}}}
			for i := 0; i < n; i++ {
				rn := fmt.Sprintf("r%02d", i)
				next := fmt.Sprintf("r%02d", (i+1)%n)
				refs := []*openfgav1.RelationReference{gen.RefType("user")}
				var us *openfgav1.Userset
				switch variant {
				case 0: // ring through TTU
					us = gen.Union(gen.This(), gen.TTU(next, "p"))
				case 1: // ring through usersets, wildcard on one node
					refs = append(refs, gen.RefRel("o", next))
					if i == n/2 {
						refs = append(refs, gen.RefWild("user"))
					}
					us = gen.This()
				case 2: // chain of computed ending in a direct assignment, plus back edge through TTU at the end
					if i == n-1 {
						us = gen.Union(gen.This(), gen.TTU("r00", "p"))
					} else {
						us = gen.Union(gen.This(), gen.Computed(next))
					}
				case 3: // ladder: two interlocking rings
					us = gen.Union(gen.This(), gen.TTU(next, "p"), gen.TTU(fmt.Sprintf("r%02d", (i+2)%n), "p"))
					if i%3 == 0 {
						refs = append(refs, gen.RefWild("employee"))
					}
				}
				td.Relations[rn] = us
				td.Metadata.Relations[rn] = &openfgav1.RelationMetadata{DirectlyRelatedUserTypes: refs}
			}
			m := &openfgav1.AuthorizationModel{SchemaVersion: "1.1", TypeDefinitions: []*openfgav1.TypeDefinition{{Type: "user"}, {Type: "employee"}, td}}
			checkWeightedModel(run, m, run.Rng("fam", n*10+variant), o)
			run.Count("family_models", 1)
		}
	}
}

// runWeightedBigFamilies: two shapes whose cost or verdict must not depend on their size.
//   - the computed ladder: L levels of `a_i: a_(i+1) or b_(i+1)`, `b_i: b_(i+1) or a_(i+1)` ending in a direct
//     assignment: 2L+2 relations, 2^L rewrite paths. Anything that walks paths instead of nodes does not come back
//     (the watchdog then ends the run with a violation);
//   - the long chain `r0: r1, r1: r2 ... rN: [user, user:*]` with N beyond any plausible fixed depth limit: the
//     verdict and the weights must not depend on where the traversal starts.
func runWeightedBigFamilies(run *core.Run, o wgOpts) {
	o.maxOrders = 24
	o.typePerms, o.opndPerms = 1, 1
	levels := []int{44}
	chains := []int{130, 220}
	if run.Tier == "thorough" {
		levels = []int{30, 44, 60}
		chains = []int{101, 130, 160, 220, 400}
	}
	for _, L := range levels {
		checkWeightedModel(run, computedLadder(L), run.Rng("fam-ladder", L), o)
		run.Count("family_models", 1)
		run.Max("computed_ladder_levels", int64(L))
	}
	for _, L := range levels {
		// the same ladder hanging below a relation that refers to itself through tuples and is public
		m := computedLadder(L)
		td := m.TypeDefinitions[1]
		td.Relations["root"] = gen.Union(gen.This(), gen.Computed("a000"), gen.Computed("b000"))
		td.Metadata.Relations["root"] = &openfgav1.RelationMetadata{DirectlyRelatedUserTypes: []*openfgav1.RelationReference{gen.RefWild("user"), gen.RefRel("o", "root"), gen.RefType("user")}}
		checkWeightedModel(run, m, run.Rng("fam-ladder-cycle", L), o)
		run.Count("family_models", 1)
	}
	for _, N := range chains {
		checkWeightedModel(run, computedChain(N), run.Rng("fam-chain", N), o)
		run.Count("family_models", 1)
		run.Max("computed_chain_length", int64(N))
	}
}

func computedLadder(L int) *openfgav1.AuthorizationModel {
	td := &openfgav1.TypeDefinition{Type: "o", Relations: map[string]*openfgav1.Userset{}, Metadata: &openfgav1.Metadata{Relations: map[string]*openfgav1.RelationMetadata{}}}
	for i := 0; i < L; i++ {
		td.Relations[fmt.Sprintf("a%03d", i)] = gen.Union(gen.Computed(fmt.Sprintf("a%03d", i+1)), gen.Computed(fmt.Sprintf("b%03d", i+1)))
		td.Relations[fmt.Sprintf("b%03d", i)] = gen.Union(gen.Computed(fmt.Sprintf("b%03d", i+1)), gen.Computed(fmt.Sprintf("a%03d", i+1)))
	}
	for _, n := range []string{fmt.Sprintf("a%03d", L), fmt.Sprintf("b%03d", L)} {
		td.Relations[n] = gen.This()
		td.Metadata.Relations[n] = &openfgav1.RelationMetadata{DirectlyRelatedUserTypes: []*openfgav1.RelationReference{gen.RefType("user")}}
	}
	return &openfgav1.AuthorizationModel{SchemaVersion: "1.1", TypeDefinitions: []*openfgav1.TypeDefinition{{Type: "user"}, td}}
}

func computedChain(N int) *openfgav1.AuthorizationModel {
	td := &openfgav1.TypeDefinition{Type: "o", Relations: map[string]*openfgav1.Userset{}, Metadata: &openfgav1.Metadata{Relations: map[string]*openfgav1.RelationMetadata{}}}
	for i := 0; i < N; i++ {
		td.Relations[fmt.Sprintf("r%03d", i)] = gen.Computed(fmt.Sprintf("r%03d", i+1))
	}
	last := fmt.Sprintf("r%03d", N)
	td.Relations[last] = gen.This()
	td.Metadata.Relations[last] = &openfgav1.RelationMetadata{DirectlyRelatedUserTypes: []*openfgav1.RelationReference{gen.RefType("user"), gen.RefWild("user")}}
	return &openfgav1.AuthorizationModel{SchemaVersion: "1.1", TypeDefinitions: []*openfgav1.TypeDefinition{{Type: "user"}, td}}
}

var usedBuilders = sync.Pool{New: func() any { return graph.NewWeightedAuthorizationModelGraphBuilder() }}

func replayWeighted(run *core.Run, c *core.Case) {
	m, err := modelFromJSON(c.Model)
	if err != nil {
		fmt.Println("cannot load model:", err)
		return
	}
	if c.Kind == "model-structure" {
		checkStructureOnly(run, m)
		return
	}
	checkWeightedModel(run, m, run.Rng("replay", 0), wgOpts{builds: 8, maxOrders: 720, typePerms: 4, opndPerms: 4})
}
