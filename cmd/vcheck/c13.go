package main

import (
	"bufio"
	"bytes"
	"encoding/json"
	"fmt"
	"math/rand"
	"os"
	"os/exec"
	"reflect"
	"sort"
	"strings"

	openfgav1 "github.com/openfga/api/proto/openfga/v1"
	"github.com/openfga/language/pkg/go/graph"
	"github.com/openfga/language/pkg/go/transformer"
	"github.com/openfga/language/pkg/go/utils"
	"github.com/openfga/language/pkg/go/validation"
	"google.golang.org/protobuf/proto"

	"verif/internal/core"
	"verif/internal/gen"
	"verif/internal/ref"
)

// C13: pure functions - inputs untouched, calls independent of history, thread-safe.

func init() { register("C13", runC13, replayC13, 200) }

// ---- 1. inputs untouched ----

type modelSnap struct {
	clone *openfgav1.AuthorizationModel
	ptrs  []*openfgav1.TypeDefinition
	shape string
}

func snapModel(m *openfgav1.AuthorizationModel) modelSnap {
	return modelSnap{proto.Clone(m).(*openfgav1.AuthorizationModel), append([]*openfgav1.TypeDefinition{}, m.GetTypeDefinitions()...), goShape(m)}
}

// goShape: the caller's object graph as Go sees it - every exported field reachable from the model, with the
// address of every pointer, the address / length / capacity of every slice, nil-ness of pointers, slices, maps and
// oneof wrappers, and all scalar values. Writes that protobuf equality cannot see (a nil payload replaced by an
// empty message, an element replaced by an equal copy, a nil slice made empty) change it. Unexported fields (size
// cache, unknown fields, message state) are runtime bookkeeping and are left out.
func goShape(m *openfgav1.AuthorizationModel) string {
	var sb strings.Builder
	shapeOf(reflect.ValueOf(m), &sb, 0)
	return sb.String()
}

func shapeOf(v reflect.Value, sb *strings.Builder, depth int) {
	if depth > 400 {
		sb.WriteString("<deep>")
		return
	}
	switch v.Kind() {
	case reflect.Ptr:
		if v.IsNil() {
			sb.WriteString("nil;")
			return
		}
		fmt.Fprintf(sb, "&%x{", v.Pointer())
		shapeOf(v.Elem(), sb, depth+1)
		sb.WriteString("}")
	case reflect.Interface:
		if v.IsNil() {
			sb.WriteString("nilif;")
			return
		}
		sb.WriteString(v.Elem().Type().String() + ":")
		shapeOf(v.Elem(), sb, depth+1)
	case reflect.Struct:
		t := v.Type()
		for i := 0; i < v.NumField(); i++ {
			if t.Field(i).PkgPath != "" {
				continue
			}
			sb.WriteString(t.Field(i).Name + "=")
			shapeOf(v.Field(i), sb, depth+1)
		}
	case reflect.Slice:
		if v.IsNil() {
			sb.WriteString("nilslice;")
			return
		}
		fmt.Fprintf(sb, "[%x/%d/%d:", v.Pointer(), v.Len(), v.Cap())
		for i := 0; i < v.Len(); i++ {
			shapeOf(v.Index(i), sb, depth+1)
		}
		sb.WriteString("]")
	case reflect.Map:
		if v.IsNil() {
			sb.WriteString("nilmap;")
			return
		}
		keys := v.MapKeys()
		sort.Slice(keys, func(i, j int) bool { return fmt.Sprint(keys[i]) < fmt.Sprint(keys[j]) })
		fmt.Fprintf(sb, "map%d{", len(keys))
		for _, k := range keys {
			fmt.Fprintf(sb, "%q:", fmt.Sprint(k))
			shapeOf(v.MapIndex(k), sb, depth+1)
		}
		sb.WriteString("}")
	case reflect.String:
		fmt.Fprintf(sb, "%q;", v.String())
	default:
		fmt.Fprintf(sb, "%v;", v.Interface())
	}
}

func (s modelSnap) changed(m *openfgav1.AuthorizationModel) string {
	if len(s.ptrs) != len(m.GetTypeDefinitions()) {
		return "number of type definitions changed"
	}
	for i := range s.ptrs {
		if s.ptrs[i] != m.TypeDefinitions[i] {
			return fmt.Sprintf("type_definitions[%d] now holds %s (was %s): slice reordered in place", i, m.TypeDefinitions[i].GetType(), s.ptrs[i].GetType())
		}
	}
	if !proto.Equal(s.clone, m) {
		return "model content changed"
	}
	if now := goShape(m); now != s.shape {
		i := 0
		for i < len(now) && i < len(s.shape) && now[i] == s.shape[i] {
			i++
		}
		lo := max(0, i-120)
		return fmt.Sprintf("the caller's object graph was written to although it is still equal as a protobuf message (nil payload filled in, element replaced by a copy, slice re-allocated ...): before ...%s, after ...%s", s.shape[lo:min(len(s.shape), i+80)], now[lo:min(len(now), i+80)])
	}
	return ""
}

func makeModularUnsorted(r *rand.Rand, m *openfgav1.AuthorizationModel) {
	mods := []string{"", "zz", "aa", "mm"}
	for _, td := range m.TypeDefinitions {
		if td == nil {
			continue // G1d leaves nil entries
		}
		if td.Metadata == nil {
			td.Metadata = &openfgav1.Metadata{}
		}
		td.Metadata.Module = mods[r.Intn(len(mods))]
		td.Metadata.SourceInfo = &openfgav1.SourceInfo{File: fmt.Sprintf("f%d.fga", r.Intn(3))}
	}
	r.Shuffle(len(m.TypeDefinitions), func(a, b int) {
		m.TypeDefinitions[a], m.TypeDefinitions[b] = m.TypeDefinitions[b], m.TypeDefinitions[a]
	})
}

func checkPurity(run *core.Run, m *openfgav1.AuthorizationModel) {
	run.Guard(&core.Case{Kind: "model", Model: modelJSON(m)}, func() { checkPurity1(run, m) })
}

func checkPurity1(run *core.Run, m *openfgav1.AuthorizationModel) {
	c := &core.Case{Kind: "model", Model: modelJSON(m)}
	snap := snapModel(m)
	step := func(name string, f func()) {
		f()
		run.Eval(1)
		run.Count("calls_with_input_snapshot:"+name, 1)
		if why := snap.changed(m); why != "" {
			run.Violation("input-modified-by:"+name, c, "argument unchanged", why)
			// restore so that the next entry point is judged on its own
			m.TypeDefinitions = append([]*openfgav1.TypeDefinition{}, snap.ptrs...)
			snap = snapModel(m) // the following entry points are judged on what they are given
		}
	}
	step("TransformJSONProtoToDSL", func() { transformer.TransformJSONProtoToDSL(m) })
	step("TransformJSONProtoToDSL+source", func() { transformer.TransformJSONProtoToDSL(m, transformer.WithIncludeSourceInformation(true)) })
	step("NewAuthorizationModelGraph", func() {
		if g, err := graph.NewAuthorizationModelGraph(m); err == nil {
			g.GetDOT()
			if rv, err := g.Reversed(); err == nil {
				rv.GetDOT()
			}
		}
	})
	step("WeightedAuthorizationModelGraphBuilder.Build", func() { graph.NewWeightedAuthorizationModelGraphBuilder().Build(m) })
	// a failing call in between leaves nothing behind: render, three failing renders, render again
	before, berr := transformer.TransformJSONProtoToDSL(m)
	for _, poison := range poisonModels() {
		transformer.TransformJSONProtoToDSL(poison)
		transformer.TransformJSONProtoToDSL(poison, transformer.WithIncludeSourceInformation(true))
	}
	after, aerr := transformer.TransformJSONProtoToDSL(m)
	run.Eval(8)
	if before != after || (berr == nil) != (aerr == nil) {
		run.Violation("result-depends-on-an-earlier-failing-call", c, before, after)
	}
	step("utils", func() {
		for _, td := range m.GetTypeDefinitions() {
			for rn, u := range td.GetRelations() {
				utils.GetModuleForObjectTypeRelation(td, rn)
				utils.IsRelationAssignable(u)
			}
		}
	})
	run.NonTrivial(c.Model)
}

func wgKey(b *graph.WeightedAuthorizationModelGraphBuilder, m *openfgav1.AuthorizationModel) string {
	g, err := b.Build(m)
	if err != nil {
		return "rejected"
	}
	return ref.CanonWeighted(g)
}

// checkObjectReuse: history independence at the level of API objects. One builder value is reused for a sequence
// of calls on ONE model value that is edited in place between the calls (a legitimate use: the caller owns the
// model between calls); every answer must equal the answer of a fresh builder on a fresh copy. The same is done
// for the printer and the plain graph (anything remembered per model pointer shows up here).
func checkObjectReuse(run *core.Run, r *rand.Rand, m *openfgav1.AuthorizationModel) {
	c := &core.Case{Kind: "reuse", Model: modelJSON(m)}
	shared := graph.NewWeightedAuthorizationModelGraphBuilder()
	edits := 0
	compare := func(stage string) bool {
		fresh := gen.CloneExact(m) // (proto.Clone would fill in bare `this` wrappers, which the printer can tell apart)
		run.Eval(3)
		if got, want := wgKey(shared, m), wgKey(graph.NewWeightedAuthorizationModelGraphBuilder(), fresh); got != want {
			run.Violation("reused-builder-answers-from-an-earlier-call", c, "fresh builder on a fresh copy: "+clipStr(want, 1500), stage+": "+clipStr(got, 1500)+"\n"+gen.PPModel(m))
			return false
		}
		d1, e1 := transformer.TransformJSONProtoToDSL(m)
		d2, e2 := transformer.TransformJSONProtoToDSL(fresh)
		if d1 != d2 || (e1 == nil) != (e2 == nil) {
			run.Violation("printer-answers-from-an-earlier-call", c, d2, stage+": "+d1)
			return false
		}
		g1, _ := graph.NewAuthorizationModelGraph(m)
		g2, _ := graph.NewAuthorizationModelGraph(fresh)
		if g1 != nil && g2 != nil && g1.GetDOT() != g2.GetDOT() {
			run.Violation("plain-graph-answers-from-an-earlier-call", c, g2.GetDOT(), stage+": "+g1.GetDOT())
			return false
		}
		return true
	}
	if !compare("first call") {
		return
	}
	for step := 0; step < 4; step++ {
		var tds []*openfgav1.TypeDefinition
		for _, td := range m.GetTypeDefinitions() {
			if len(td.GetRelations()) > 0 {
				tds = append(tds, td)
			}
		}
		if len(tds) == 0 {
			return
		}
		td := tds[r.Intn(len(tds))]
		rn := pickSortedKey(r, td.GetRelations())
		what := ""
		switch r.Intn(5) {
		case 0: // remove a relation (possibly the target of a tuple-to-userset or of a userset restriction)
			delete(td.Relations, rn)
			if td.GetMetadata().GetRelations() != nil {
				delete(td.Metadata.Relations, rn)
			}
			what = "removed " + td.GetType() + "#" + rn
		case 1: // add a relation
			td.Relations["added"] = gen.This()
			if td.Metadata == nil {
				td.Metadata = &openfgav1.Metadata{}
			}
			if td.Metadata.Relations == nil {
				td.Metadata.Relations = map[string]*openfgav1.RelationMetadata{}
			}
			td.Metadata.Relations["added"] = &openfgav1.RelationMetadata{DirectlyRelatedUserTypes: []*openfgav1.RelationReference{gen.RefType(m.TypeDefinitions[0].GetType())}}
			what = "added " + td.GetType() + "#added"
		case 2: // replace a rewrite
			td.Relations[rn] = gen.Union(gen.This(), gen.TTU("added", "p"))
			if td.Metadata == nil {
				td.Metadata = &openfgav1.Metadata{}
			}
			if td.Metadata.Relations == nil {
				td.Metadata.Relations = map[string]*openfgav1.RelationMetadata{}
			}
			td.Metadata.Relations[rn] = &openfgav1.RelationMetadata{DirectlyRelatedUserTypes: []*openfgav1.RelationReference{gen.RefType(m.TypeDefinitions[0].GetType())}}
			what = "replaced the rewrite of " + td.GetType() + "#" + rn
		case 3: // change the parents of the tupleset
			if md := td.GetMetadata().GetRelations()["p"]; md != nil {
				md.DirectlyRelatedUserTypes = append(md.DirectlyRelatedUserTypes, gen.RefType(m.TypeDefinitions[len(m.TypeDefinitions)-1].GetType()))
				what = "added a parent type to " + td.GetType() + "#p"
			}
		case 4: // reorder the type definitions
			r.Shuffle(len(m.TypeDefinitions), func(i, j int) {
				m.TypeDefinitions[i], m.TypeDefinitions[j] = m.TypeDefinitions[j], m.TypeDefinitions[i]
			})
			what = "shuffled type_definitions"
		}
		if what == "" {
			continue
		}
		edits++
		if !compare("after edit " + fmt.Sprint(edits) + " (" + what + ")") {
			return
		}
	}
	run.Count("object_reuse_sequences", 1)
	run.Count("object_reuse_edits", int64(edits))
}

func pickSortedKey(r *rand.Rand, m map[string]*openfgav1.Userset) string {
	var ks []string
	for k := range m {
		ks = append(ks, k)
	}
	sort.Strings(ks)
	return ks[r.Intn(len(ks))]
}

func checkPurityFiles(run *core.Run, files []core.File) {
	mods := make([]transformer.ModuleFile, len(files))
	for i, f := range files {
		mods[i] = transformer.ModuleFile{Name: f.Name, Contents: f.Contents}
	}
	snap := append([]transformer.ModuleFile{}, mods...)
	m1, err1, p := callMerge(mods, "1.2")
	run.Eval(1)
	run.Count("calls_with_input_snapshot:TransformModuleFilesToModel", 1)
	if p != "" {
		run.Count("sibling_C08_panic_in_merge", 1)
		return
	}
	for i := range mods {
		if mods[i] != snap[i] {
			run.Violation("input-modified-by:TransformModuleFilesToModel", &core.Case{Kind: "files", Files: files}, "file slice unchanged", fmt.Sprintf("element %d", i))
		}
	}
	// a second call on the same slice gives the same answer (nothing was kept from the first)
	m2, err2, _ := callMerge(mods, "1.2")
	run.Eval(1)
	if (err1 == nil) != (err2 == nil) || (err1 == nil && !proto.Equal(m1, m2)) || (err1 != nil && err1.Error() != err2.Error()) {
		run.Violation("second-call-differs:TransformModuleFilesToModel", &core.Case{Kind: "files", Files: files}, fmt.Sprint(err1), fmt.Sprint(err2))
	}
	// a returned error list must not change when a later call (on other inputs) is made
	if err1 != nil {
		es1, _ := flattenMergeErr(err1)
		before := fmtMergeErrs(es1) + "\n" + err1.Error()
		other := make([]transformer.ModuleFile, len(mods))
		for i, f := range mods {
			other[i] = transformer.ModuleFile{Name: "later-" + f.Name, Contents: f.Contents}
		}
		callMerge(other, "1.2")
		run.Eval(1)
		es1b, _ := flattenMergeErr(err1)
		if after := fmtMergeErrs(es1b) + "\n" + err1.Error(); after != before {
			run.Violation("returned-error-changed-by-a-later-call", &core.Case{Kind: "files", Files: files}, before, after)
		}
		run.Count("error_results_rechecked_after_a_later_call", 1)
	}
	// the returned model must not alias state that a later call changes
	if err1 == nil {
		k1 := modelKey(m1)
		callMerge(mods, "1.1")
		if modelKey(m1) != k1 {
			run.Violation("returned-model-changed-by-a-later-call", &core.Case{Kind: "files", Files: files}, "results of separate calls are independent", "the first result changed")
		}
	}
}

// ---- 3. history independence ----

// resultKeys: everything a probe text yields, as strings that do not depend on ULIDs or protojson whitespace.
func resultKeys(txt string) string {
	var sb strings.Builder
	m, err := transformer.TransformDSLToProto(txt)
	if err != nil {
		sb.WriteString("parse-error:" + err.Error())
		return sb.String()
	}
	sb.WriteString("model:" + modelKey(m))
	if d, err := transformer.TransformJSONProtoToDSL(m); err != nil {
		sb.WriteString("|render-error:" + err.Error())
	} else {
		sb.WriteString("|dsl:" + d)
	}
	if g, err := graph.NewWeightedAuthorizationModelGraphBuilder().Build(m); err != nil {
		sb.WriteString("|wg-error") // the sentinel returned may depend on traversal order (DESIGN §7-d)
	} else {
		sb.WriteString("|wg:" + ref.CanonWeighted(g))
	}
	if g, err := graph.NewAuthorizationModelGraph(m); err == nil {
		sb.WriteString("|dot:" + g.GetDOT())
	}
	if _, ext, err := transformer.TransformModularDSLToProto(txt); err == nil {
		sb.WriteString(fmt.Sprintf("|ext:%d", len(ext)))
	}
	sb.WriteString(fmt.Sprintf("|v:%v%v", validation.ValidateUser(txt), validation.ValidateType(txt)))
	return sb.String()
}

func historyWorker() {
	var in []string
	if err := json.NewDecoder(bufio.NewReader(os.Stdin)).Decode(&in); err != nil {
		fmt.Println("ERR", err)
		os.Exit(2)
	}
	for _, s := range in {
		fmt.Printf("%016x\n", core.Hash(resultKeys(s)))
	}
}

func runHistoryProcess(inputs []string) ([]string, error) {
	exe, err := os.Executable()
	if err != nil {
		return nil, err
	}
	b, _ := json.Marshal(inputs)
	cmd := exec.Command(exe, "-worker", "history")
	cmd.Stdin = bytes.NewReader(b)
	out, err := cmd.Output()
	if err != nil {
		return nil, fmt.Errorf("%v: %s", err, clipStr(string(out), 500))
	}
	lines := strings.Split(strings.TrimSpace(string(out)), "\n")
	if len(lines) != len(inputs) {
		return nil, fmt.Errorf("worker answered %d lines for %d inputs", len(lines), len(inputs))
	}
	return lines, nil
}

func checkHistory(run *core.Run, nProbes, nHistories, histLen int) {
	corpus := gen.Corpus()
	r := run.Rng("history", 0)
	var probes []string
	for i := 0; i < nProbes; i++ {
		switch i % 4 {
		case 0:
			probes = append(probes, corpus[r.Intn(len(corpus))])
		case 1:
			probes = append(probes, gen.Mutate(r, corpus[r.Intn(len(corpus))]))
		default:
			g := &gen.DSLGen{R: r}
			probes = append(probes, g.Doc(i%8 == 2).Render(&gen.Layout{R: r, Wild: i%3 == 0, Comments: true}))
		}
	}
	base, err := runHistoryProcess(probes)
	if err != nil {
		run.Inconclusive("history worker failed: %v", err)
		return
	}
	run.Eval(len(probes))
	compare := func(name string, got []string, idx func(i int) int, pre []string) {
		for i := range probes {
			run.Eval(1)
			if got[idx(i)] != base[i] {
				c := &core.Case{Kind: "history", DSL: probes[i], Strs: pre}
				run.Violation("result-depends-on-history", c, "hash "+base[i]+" (probes only)", "hash "+got[idx(i)]+" after "+name)
				return
			}
		}
		run.Count("histories_compared", 1)
	}
	// truly cold: the first probes alone in a fresh process each
	for i := 0; i < nProbes && i < 8; i++ {
		got, err := runHistoryProcess([]string{probes[i]})
		if err != nil {
			run.Inconclusive("history worker failed: %v", err)
			return
		}
		run.Eval(1)
		if got[0] != base[i] {
			run.Violation("result-depends-on-history", &core.Case{Kind: "history", DSL: probes[i]}, "hash "+got[0]+" in a cold process", "hash "+base[i]+" after earlier probes")
		}
		run.Count("cold_process_probes", 1)
	}
	// reversed probe order
	rev := make([]string, len(probes))
	for i, p := range probes {
		rev[len(probes)-1-i] = p
	}
	if got, err := runHistoryProcess(rev); err == nil {
		compare("the probes in reverse order", got, func(i int) int { return len(probes) - 1 - i }, nil)
	}
	// look-alike history: for every probe, earlier inputs that share its length, its prefix or its suffix - the
	// shapes a coarsely keyed cache (by length, by prefix, by hash of a part) would confuse with the probe
	{
		var pre []string
		for _, p := range probes {
			if len(p) < 4 {
				continue
			}
			mid := len(p) / 2
			pre = append(pre, p[:mid]+"x"+p[mid+1:], p+" ", p[:len(p)-1], strings.ToUpper(p[:1])+p[1:], p[:mid]+p[mid:]+"\n# tail")
		}
		if got, err := runHistoryProcess(append(append([]string{}, pre...), probes...)); err == nil {
			compare("look-alike inputs (same length / prefix / suffix as the probes)", got, func(i int) int { return len(pre) + i }, pre)
		}
	}
	for h := 0; h < nHistories; h++ {
		var pre []string
		for k := 0; k < histLen; k++ {
			switch r.Intn(3) {
			case 0:
				pre = append(pre, corpus[r.Intn(len(corpus))])
			case 1:
				pre = append(pre, gen.Mutate(r, corpus[r.Intn(len(corpus))]))
			default:
				g := &gen.DSLGen{R: r}
				pre = append(pre, gen.Mutate(r, g.Doc(false).Render(&gen.Layout{R: r, Wild: true})))
			}
		}
		got, err := runHistoryProcess(append(append([]string{}, pre...), probes...))
		if err != nil {
			run.Inconclusive("history worker failed: %v", err)
			return
		}
		compare(fmt.Sprintf("history #%d of %d earlier inputs", h, len(pre)), got, func(i int) int { return len(pre) + i }, pre)
	}
	run.Count("history_probes", int64(nProbes))
}

func runC13(run *core.Run) {
	run.Rule = "(1) input-snapshot monitor; object-reuse monitor (one builder value and one model value edited in place between calls: every answer must equal a fresh builder on a fresh copy; same for printer and plain graph) (deep clone + element identity before, compared after) around every entry point taking a model or a file slice, on generated models (also G1d models with missing optional parts) - half of them modular with the type list not in module order - and G3 file sets; (2) go test -race workload: rounds of 12-16 goroutines released by a barrier on a fresh clone of a shared input per round (render one shared unsorted modular model; render + both graph builders + utils on one model; parse distinct texts; parse one text; merge one file slice; validators and fga.mod), results compared with the sequential baseline, overlapping call pairs counted, report blocks of the race log de-duplicated by outermost repository frames; (3) history: per probe input the hash of everything it yields (model, DSL, weighted graph, DOT) must be equal in a cold process, after the other probes, in reverse order and after arbitrary earlier inputs; non-trivial = snapshotted model / file set; distinct by input"
	n := run.N(6000, 100000)
	core.Parallel(n, func(i int) {
		r := run.Rng("c13", i)
		var m *openfgav1.AuthorizationModel
		if i%3 == 0 {
			m = c14Model(r)
		} else {
			m = gen.Model(r, gen.ModelOpt{MaxObj: 3, Conditions: true})
		}
		if i%2 == 0 {
			makeModularUnsorted(r, m)
			run.Count("modular_unsorted_models", 1)
		}
		checkPurity(run, m)
		run.SampleAt(i, n/3+1, func() any { return gen.PPModel(m) })
		if i%2 == 1 {
			checkObjectReuse(run, r, m) // edits m in place: last use of m
		}
	})
	// two DIFFERENT models carrying the SAME id, one after the other (a model fetched, edited and reloaded keeps its
	// id): what is answered for the second must be what is answered for it under an id nobody has seen - anything
	// remembered under the id shows here
	nid := run.N(800, 16000)
	core.Parallel(nid, func(i int) {
		r := run.Rng("c13-same-id", i)
		opt := gen.ModelOpt{Conditions: r.Intn(2) == 0, Wildcards: 2, MaxObj: 3}
		a, b := gen.Model(r, opt), gen.Model(r, opt)
		shared := []string{"01HVMMBCMGZNT3SED4Z17ECXCA", "m", "01J0000000000000000000000B"}[i%3]
		a.Id, b.Id = shared, shared
		c := &core.Case{Kind: "same-id", Model: modelJSON(b), Extra: map[string]string{"first_model": modelJSON(a)}}
		run.Guard(c, func() {
			keys := func(m *openfgav1.AuthorizationModel) string {
				k := wgKey(graph.NewWeightedAuthorizationModelGraphBuilder(), m)
				if g, err := graph.NewAuthorizationModelGraph(m); err == nil {
					k += "\n" + g.GetDOT()
				} else {
					k += "\nplain graph: " + err.Error()
				}
				d, err := transformer.TransformJSONProtoToDSL(m)
				return k + "\n" + d + fmt.Sprint(err != nil)
			}
			fresh := gen.CloneExact(b)
			fresh.Id = fmt.Sprintf("never-seen-%d-%d", run.Seed, i)
			want := keys(fresh)
			keys(a)
			got := keys(b)
			run.Eval(3)
			run.Count("model_pairs_sharing_an_id", 1)
			if got != want {
				run.Violation("result-depends-on-an-earlier-model-with-the-same-id", c, clipStr(want, 2500), clipStr(got, 2500))
			}
		})
	})
	// large regular models (the computed ladder with 2^44 rewrite paths, a chain of 220 computed relations): every
	// entry point still answers, and leaves them alone
	for _, m := range []*openfgav1.AuthorizationModel{computedLadder(44), computedChain(220)} {
		checkPurity(run, m)
		run.Count("large_regular_models_snapshotted", 1)
	}
	// models with missing optional parts (G1d): most calls answer with an error - the argument is still not theirs to touch
	nd := run.N(3000, 50000)
	core.Parallel(nd, func(i int) {
		r := run.Rng("c13-degenerate", i)
		m := proto.Clone(gen.Model(r, gen.ModelOpt{MaxObj: 3, Conditions: true})).(*openfgav1.AuthorizationModel)
		gen.Degenerate(r, m)
		if i%3 == 0 {
			makeModularUnsorted(r, m)
		}
		checkPurity(run, m)
		run.Count("degenerate_models_snapshotted", 1)
	})
	nf := run.N(1500, 30000)
	core.Parallel(nf, func(i int) {
		r := run.Rng("c13-files", i)
		files := genFileSet(r, mergeGenOpt{Conflicts: []int{0, 0, 1, 2}[r.Intn(4)], ForceExtends: r.Intn(2) == 0})
		checkPurityFiles(run, toCoreFiles(files))
	})
	raceRun(run, "c13", run.N(40, 250), run.N(1, 4))
	checkHistory(run, run.N(40, 300), run.N(3, 8), run.N(60, 200))
}

func replayC13(run *core.Run, c *core.Case) {
	switch c.Kind {
	case "model":
		m, err := modelFromJSON(c.Model)
		if err != nil {
			fmt.Println(err)
			return
		}
		checkPurity(run, m)
	case "files":
		checkPurityFiles(run, c.Files)
	case "reuse":
		m, err := modelFromJSON(c.Model)
		if err != nil {
			fmt.Println(err)
			return
		}
		for k := 0; k < 50; k++ {
			checkObjectReuse(run, run.Rng("replay-reuse", k), proto.Clone(m).(*openfgav1.AuthorizationModel))
		}
	case "history":
		cold, err1 := runHistoryProcess([]string{c.DSL})
		warm, err2 := runHistoryProcess(append(append([]string{}, c.Strs...), c.DSL))
		if err1 != nil || err2 != nil {
			fmt.Println(err1, err2)
			return
		}
		if cold[0] != warm[len(warm)-1] {
			run.Violation("result-depends-on-history", c, cold[0], warm[len(warm)-1])
		}
	default:
		// races and concurrent mismatches need the schedule: re-run the workload
		raceRun(run, "c13", 60, 2)
	}
}
