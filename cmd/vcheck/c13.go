package main

import (
	"bufio"
	"bytes"
	"encoding/json"
	"fmt"
	"math/rand"
	"os"
	"os/exec"
	"strings"

	openfgav1 "github.com/openfga/api/proto/openfga/v1"
	"github.com/openfga/language/pkg/go/graph"
	"github.com/openfga/language/pkg/go/transformer"
	"github.com/openfga/language/pkg/go/utils"
	"github.com/openfga/language/pkg/go/validation"
	"google.golang.org/protobuf/proto"

	"verif/internal/core"
	"verif/internal/gen"
	"verif/internal/ref"
)

// C13: pure functions - inputs untouched, calls independent of history, thread-safe.

func init() { register("C13", runC13, replayC13, 200) }

// ---- 1. inputs untouched ----

type modelSnap struct {
	clone *openfgav1.AuthorizationModel
	ptrs  []*openfgav1.TypeDefinition
}

func snapModel(m *openfgav1.AuthorizationModel) modelSnap {
	return modelSnap{proto.Clone(m).(*openfgav1.AuthorizationModel), append([]*openfgav1.TypeDefinition{}, m.GetTypeDefinitions()...)}
}

func (s modelSnap) changed(m *openfgav1.AuthorizationModel) string {
	if len(s.ptrs) != len(m.GetTypeDefinitions()) {
		return "number of type definitions changed"
	}
	for i := range s.ptrs {
		if s.ptrs[i] != m.TypeDefinitions[i] {
			return fmt.Sprintf("type_definitions[%d] now holds %s (was %s): slice reordered in place", i, m.TypeDefinitions[i].GetType(), s.ptrs[i].GetType())
		}
	}
	if !proto.Equal(s.clone, m) {
		return "model content changed"
	}
	return ""
}

func makeModularUnsorted(r *rand.Rand, m *openfgav1.AuthorizationModel) {
	mods := []string{"", "zz", "aa", "mm"}
	for _, td := range m.TypeDefinitions {
		if td.Metadata == nil {
			td.Metadata = &openfgav1.Metadata{}
		}
		td.Metadata.Module = mods[r.Intn(len(mods))]
		td.Metadata.SourceInfo = &openfgav1.SourceInfo{File: fmt.Sprintf("f%d.fga", r.Intn(3))}
	}
	r.Shuffle(len(m.TypeDefinitions), func(a, b int) { m.TypeDefinitions[a], m.TypeDefinitions[b] = m.TypeDefinitions[b], m.TypeDefinitions[a] })
}

func checkPurity(run *core.Run, m *openfgav1.AuthorizationModel) {
	c := &core.Case{Kind: "model", Model: modelJSON(m)}
	snap := snapModel(m)
	step := func(name string, f func()) {
		f()
		run.Eval(1)
		run.Count("calls_with_input_snapshot:"+name, 1)
		if why := snap.changed(m); why != "" {
			run.Violation("input-modified-by:"+name, c, "argument unchanged", why)
			// restore so that the next entry point is judged on its own
			m.TypeDefinitions = append([]*openfgav1.TypeDefinition{}, snap.ptrs...)
		}
	}
	step("TransformJSONProtoToDSL", func() { transformer.TransformJSONProtoToDSL(m) })
	step("TransformJSONProtoToDSL+source", func() { transformer.TransformJSONProtoToDSL(m, transformer.WithIncludeSourceInformation(true)) })
	step("NewAuthorizationModelGraph", func() {
		if g, err := graph.NewAuthorizationModelGraph(m); err == nil {
			g.GetDOT()
			if rv, err := g.Reversed(); err == nil {
				rv.GetDOT()
			}
		}
	})
	step("WeightedAuthorizationModelGraphBuilder.Build", func() { graph.NewWeightedAuthorizationModelGraphBuilder().Build(m) })
	step("utils", func() {
		for _, td := range m.GetTypeDefinitions() {
			for rn, u := range td.GetRelations() {
				utils.GetModuleForObjectTypeRelation(td, rn)
				utils.IsRelationAssignable(u)
			}
		}
	})
	run.NonTrivial(c.Model)
}

func checkPurityFiles(run *core.Run, files []core.File) {
	mods := make([]transformer.ModuleFile, len(files))
	for i, f := range files {
		mods[i] = transformer.ModuleFile{Name: f.Name, Contents: f.Contents}
	}
	snap := append([]transformer.ModuleFile{}, mods...)
	m1, err1, p := callMerge(mods, "1.2")
	run.Eval(1)
	run.Count("calls_with_input_snapshot:TransformModuleFilesToModel", 1)
	if p != "" {
		run.Count("sibling_C08_panic_in_merge", 1)
		return
	}
	for i := range mods {
		if mods[i] != snap[i] {
			run.Violation("input-modified-by:TransformModuleFilesToModel", &core.Case{Kind: "files", Files: files}, "file slice unchanged", fmt.Sprintf("element %d", i))
		}
	}
	// a second call on the same slice gives the same answer (nothing was kept from the first)
	m2, err2, _ := callMerge(mods, "1.2")
	run.Eval(1)
	if (err1 == nil) != (err2 == nil) || (err1 == nil && !proto.Equal(m1, m2)) || (err1 != nil && err1.Error() != err2.Error()) {
		run.Violation("second-call-differs:TransformModuleFilesToModel", &core.Case{Kind: "files", Files: files}, fmt.Sprint(err1), fmt.Sprint(err2))
	}
	// the returned model must not alias state that a later call changes
	if err1 == nil {
		k1 := modelKey(m1)
		callMerge(mods, "1.1")
		if modelKey(m1) != k1 {
			run.Violation("returned-model-changed-by-a-later-call", &core.Case{Kind: "files", Files: files}, "results of separate calls are independent", "the first result changed")
		}
	}
}

// ---- 3. history independence ----

// resultKeys: everything a probe text yields, as strings that do not depend on ULIDs or protojson whitespace.
func resultKeys(txt string) string {
	var sb strings.Builder
	m, err := transformer.TransformDSLToProto(txt)
	if err != nil {
		sb.WriteString("parse-error:" + err.Error())
		return sb.String()
	}
	sb.WriteString("model:" + modelKey(m))
	if d, err := transformer.TransformJSONProtoToDSL(m); err != nil {
		sb.WriteString("|render-error:" + err.Error())
	} else {
		sb.WriteString("|dsl:" + d)
	}
	if g, err := graph.NewWeightedAuthorizationModelGraphBuilder().Build(m); err != nil {
		sb.WriteString("|wg-error") // the sentinel returned may depend on traversal order (DESIGN §7-d)
	} else {
		sb.WriteString("|wg:" + ref.CanonWeighted(g))
	}
	if g, err := graph.NewAuthorizationModelGraph(m); err == nil {
		sb.WriteString("|dot:" + g.GetDOT())
	}
	if _, ext, err := transformer.TransformModularDSLToProto(txt); err == nil {
		sb.WriteString(fmt.Sprintf("|ext:%d", len(ext)))
	}
	sb.WriteString(fmt.Sprintf("|v:%v%v", validation.ValidateUser(txt), validation.ValidateType(txt)))
	return sb.String()
}

func historyWorker() {
	var in []string
	if err := json.NewDecoder(bufio.NewReader(os.Stdin)).Decode(&in); err != nil {
		fmt.Println("ERR", err)
		os.Exit(2)
	}
	for _, s := range in {
		fmt.Printf("%016x\n", core.Hash(resultKeys(s)))
	}
}

func runHistoryProcess(inputs []string) ([]string, error) {
	exe, err := os.Executable()
	if err != nil {
		return nil, err
	}
	b, _ := json.Marshal(inputs)
	cmd := exec.Command(exe, "-worker", "history")
	cmd.Stdin = bytes.NewReader(b)
	out, err := cmd.Output()
	if err != nil {
		return nil, fmt.Errorf("%v: %s", err, clipStr(string(out), 500))
	}
	lines := strings.Split(strings.TrimSpace(string(out)), "\n")
	if len(lines) != len(inputs) {
		return nil, fmt.Errorf("worker answered %d lines for %d inputs", len(lines), len(inputs))
	}
	return lines, nil
}

func checkHistory(run *core.Run, nProbes, nHistories, histLen int) {
	corpus := gen.Corpus()
	r := run.Rng("history", 0)
	var probes []string
	for i := 0; i < nProbes; i++ {
		switch i % 4 {
		case 0:
			probes = append(probes, corpus[r.Intn(len(corpus))])
		case 1:
			probes = append(probes, gen.Mutate(r, corpus[r.Intn(len(corpus))]))
		default:
			g := &gen.DSLGen{R: r}
			probes = append(probes, g.Doc(i%8 == 2).Render(&gen.Layout{R: r, Wild: i%3 == 0, Comments: true}))
		}
	}
	base, err := runHistoryProcess(probes)
	if err != nil {
		run.Inconclusive("history worker failed: %v", err)
		return
	}
	run.Eval(len(probes))
	compare := func(name string, got []string, idx func(i int) int, pre []string) {
		for i := range probes {
			run.Eval(1)
			if got[idx(i)] != base[i] {
				c := &core.Case{Kind: "history", DSL: probes[i], Strs: pre}
				run.Violation("result-depends-on-history", c, "hash "+base[i]+" (probes only)", "hash "+got[idx(i)]+" after "+name)
				return
			}
		}
		run.Count("histories_compared", 1)
	}
	// truly cold: the first probes alone in a fresh process each
	for i := 0; i < nProbes && i < 8; i++ {
		got, err := runHistoryProcess([]string{probes[i]})
		if err != nil {
			run.Inconclusive("history worker failed: %v", err)
			return
		}
		run.Eval(1)
		if got[0] != base[i] {
			run.Violation("result-depends-on-history", &core.Case{Kind: "history", DSL: probes[i]}, "hash "+got[0]+" in a cold process", "hash "+base[i]+" after earlier probes")
		}
		run.Count("cold_process_probes", 1)
	}
	// reversed probe order
	rev := make([]string, len(probes))
	for i, p := range probes {
		rev[len(probes)-1-i] = p
	}
	if got, err := runHistoryProcess(rev); err == nil {
		compare("the probes in reverse order", got, func(i int) int { return len(probes) - 1 - i }, nil)
	}
	// look-alike history: for every probe, earlier inputs that share its length, its prefix or its suffix - the
	// shapes a coarsely keyed cache (by length, by prefix, by hash of a part) would confuse with the probe
	{
		var pre []string
		for _, p := range probes {
			if len(p) < 4 {
				continue
			}
			mid := len(p) / 2
			pre = append(pre, p[:mid]+"x"+p[mid+1:], p+" ", p[:len(p)-1], strings.ToUpper(p[:1])+p[1:], p[:mid]+p[mid:]+"\n# tail")
		}
		if got, err := runHistoryProcess(append(append([]string{}, pre...), probes...)); err == nil {
			compare("look-alike inputs (same length / prefix / suffix as the probes)", got, func(i int) int { return len(pre) + i }, pre)
		}
	}
	for h := 0; h < nHistories; h++ {
		var pre []string
		for k := 0; k < histLen; k++ {
			switch r.Intn(3) {
			case 0:
				pre = append(pre, corpus[r.Intn(len(corpus))])
			case 1:
				pre = append(pre, gen.Mutate(r, corpus[r.Intn(len(corpus))]))
			default:
				g := &gen.DSLGen{R: r}
				pre = append(pre, gen.Mutate(r, g.Doc(false).Render(&gen.Layout{R: r, Wild: true})))
			}
		}
		got, err := runHistoryProcess(append(append([]string{}, pre...), probes...))
		if err != nil {
			run.Inconclusive("history worker failed: %v", err)
			return
		}
		compare(fmt.Sprintf("history #%d of %d earlier inputs", h, len(pre)), got, func(i int) int { return len(pre) + i }, pre)
	}
	run.Count("history_probes", int64(nProbes))
}

func runC13(run *core.Run) {
	run.Rule = "(1) input-snapshot monitor (deep clone + element identity before, compared after) around every entry point taking a model or a file slice, on generated models - half of them modular with the type list not in module order - and G3 file sets; (2) go test -race workload: rounds of 12-16 goroutines released by a barrier on a fresh clone of a shared input per round (render one shared unsorted modular model; render + both graph builders + utils on one model; parse distinct texts; parse one text; merge one file slice; validators and fga.mod), results compared with the sequential baseline, overlapping call pairs counted, report blocks of the race log de-duplicated by outermost repository frames; (3) history: per probe input the hash of everything it yields (model, DSL, weighted graph, DOT) must be equal in a cold process, after the other probes, in reverse order and after arbitrary earlier inputs; non-trivial = snapshotted model / file set; distinct by input"
	n := run.N(6000, 100000)
	core.Parallel(n, func(i int) {
		r := run.Rng("c13", i)
		var m *openfgav1.AuthorizationModel
		if i%3 == 0 {
			m = c14Model(r)
		} else {
			m = gen.Model(r, gen.ModelOpt{MaxObj: 3, Conditions: true})
		}
		if i%2 == 0 {
			makeModularUnsorted(r, m)
			run.Count("modular_unsorted_models", 1)
		}
		checkPurity(run, m)
		run.SampleAt(i, n/3+1, func() any { return gen.PPModel(m) })
	})
	nf := run.N(1500, 30000)
	core.Parallel(nf, func(i int) {
		r := run.Rng("c13-files", i)
		files := genFileSet(r, mergeGenOpt{Conflicts: []int{0, 0, 1, 2}[r.Intn(4)], ForceExtends: r.Intn(2) == 0})
		checkPurityFiles(run, toCoreFiles(files))
	})
	raceRun(run, "c13", run.N(40, 250), run.N(1, 4))
	checkHistory(run, run.N(40, 300), run.N(3, 8), run.N(60, 200))
}

func replayC13(run *core.Run, c *core.Case) {
	switch c.Kind {
	case "model":
		m, err := modelFromJSON(c.Model)
		if err != nil {
			fmt.Println(err)
			return
		}
		checkPurity(run, m)
	case "files":
		checkPurityFiles(run, c.Files)
	case "history":
		cold, err1 := runHistoryProcess([]string{c.DSL})
		warm, err2 := runHistoryProcess(append(append([]string{}, c.Strs...), c.DSL))
		if err1 != nil || err2 != nil {
			fmt.Println(err1, err2)
			return
		}
		if cold[0] != warm[len(warm)-1] {
			run.Violation("result-depends-on-history", c, cold[0], warm[len(warm)-1])
		}
	default:
		// races and concurrent mismatches need the schedule: re-run the workload
		raceRun(run, "c13", 60, 2)
	}
}
