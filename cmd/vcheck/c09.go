package main

import (
	"fmt"
	"math/rand"
	"regexp"
	"strconv"
	"strings"

	"github.com/antlr4-go/antlr/v4"
	parser "github.com/openfga/language/pkg/go/gen"
	"github.com/openfga/language/pkg/go/transformer"

	"verif/internal/core"
	"verif/internal/gen"
)

// C09: a document with one injected structural violation is rejected, wherever the injection sits.
// The injection engine is shared with C16 (exact error positions of listener errors).

func init() { register("C09", runC09, replayC09, 200) }

var errRe = regexp.MustCompile(`syntax error at line=(-?\d+), column=(-?\d+): ([^\n]*)`)

const nInjKinds = 12

var injNames = []string{"mixed-operators", "direct-not-first", "direct-inside-later-parenthesis", "empty-restrictions", "wildcard-and-relation",
	"duplicate-relation", "duplicate-condition", "duplicate-parameter", "extend-in-model", "double-extend", "headers", "bad-container"}

type injection struct {
	name    string
	posKey  string // renderer mark the error must point at ("" = no exact position demanded)
	msgHint []string
	post    func(string) string
	flipAPI bool // both-headers: parse through the other entry point too
}

func opExprs(d *gen.Doc) (sites []*gen.Expr) {
	for ti := range d.Types {
		for ri := range d.Types[ti].Rels {
			d.Types[ti].Rels[ri].Expr.Walk(func(e *gen.Expr) { sites = append(sites, e) })
		}
	}
	return
}

func isOp(e *gen.Expr) bool { return e.Kind == "or" || e.Kind == "and" || e.Kind == "butnot" }

func leafZZ() *gen.Expr { return &gen.Expr{Kind: "computed", Name: "zz"} }

// leftmost returns the pointer to the left-most leaf slot below e (through operators and parentheses).
func leftmost(e *gen.Expr) *gen.Expr {
	for len(e.Kids) > 0 {
		e = e.Kids[0]
	}
	return e
}

// siteCount returns how many sites the document offers to injection kind k.
func siteCount(d *gen.Doc, k int) int {
	modular := d.Module != ""
	n := 0
	switch k {
	case 0:
		for _, s := range opExprs(d) {
			if s.Kind != "direct" {
				n++
			}
		}
	case 1:
		for _, s := range opExprs(d) {
			if isOp(s) {
				n += len(s.Kids) - 1
			}
		}
	case 2:
		for _, s := range opExprs(d) {
			if isOp(s) {
				for _, kid := range s.Kids[1:] {
					if kid.Kind == "paren" {
						n++
					}
				}
			}
		}
	case 3:
		for _, s := range opExprs(d) {
			if s.Kind == "direct" {
				n++
			}
		}
	case 4:
		for _, s := range opExprs(d) {
			if s.Kind == "direct" {
				n += len(s.Restr)
			}
		}
	case 5:
		for _, t := range d.Types {
			n += len(t.Rels)
		}
	case 6:
		n = len(d.Conds)
	case 7, 11:
		for _, c := range d.Conds {
			n += len(c.Params)
		}
	case 8:
		if !modular {
			n = len(d.Types)
		}
	case 9:
		if modular {
			n = len(d.Types)
		}
	case 10:
		n = 2
	}
	return n
}

// applyInjection mutates d (a clone) at site `site` of kind k; variant selects among spellings.
func applyInjection(d *gen.Doc, k, site, variant int) *injection {
	modular := d.Module != ""
	inj := &injection{name: injNames[k], post: func(s string) string { return s }}
	idx := 0
	switch k {
	case 0:
		for _, s := range opExprs(d) {
			if s.Kind == "direct" {
				continue
			}
			if idx == site {
				ops := [][]string{{"or", "and"}, {"and", "or"}, {"or", "but not"}, {"but not", "or"}, {"and", "but not"}, {"but not", "and"}, {"but not", "but not"}, {"or", "or", "and"}}[variant%8]
				first := s.Clone()
				if isOp(first) {
					first = &gen.Expr{Kind: "paren", Kids: []*gen.Expr{first}}
				}
				kids := []*gen.Expr{first}
				for range ops {
					kids = append(kids, leafZZ())
				}
				*s = gen.Expr{Kind: "mixed", Name: strings.Join(ops, ","), Kids: kids}
				return inj
			}
			idx++
		}
	case 1:
		for _, s := range opExprs(d) {
			if !isOp(s) {
				continue
			}
			for pos := 1; pos < len(s.Kids); pos++ {
				if idx == site {
					s.Kids[pos] = &gen.Expr{Kind: "direct", Restr: []gen.Restriction{{Type: "user"}}}
					return inj
				}
				idx++
			}
		}
	case 2:
		for _, s := range opExprs(d) {
			if !isOp(s) {
				continue
			}
			for _, kid := range s.Kids[1:] {
				if kid.Kind != "paren" {
					continue
				}
				if idx == site {
					*leftmost(kid) = gen.Expr{Kind: "direct", Restr: []gen.Restriction{{Type: "user"}}}
					return inj
				}
				idx++
			}
		}
	case 3:
		for _, s := range opExprs(d) {
			if s.Kind != "direct" {
				continue
			}
			if idx == site {
				s.Restr = nil
				if variant%2 == 1 {
					s.Name = "space"
				}
				return inj
			}
			idx++
		}
	case 4:
		for _, s := range opExprs(d) {
			if s.Kind != "direct" {
				continue
			}
			for j := range s.Restr {
				if idx == site {
					s.Restr[j].Wildcard = true
					s.Restr[j].Relation = "member"
					return inj
				}
				idx++
			}
		}
	case 5:
		for ti := range d.Types {
			t := &d.Types[ti]
			for ri := range t.Rels {
				if idx == site {
					dup := gen.Relation{Name: t.Rels[ri].Name}
					switch variant % 3 {
					case 0:
						dup.Expr = leafZZ()
					case 1:
						dup.Expr = &gen.Expr{Kind: "direct", Restr: []gen.Restriction{{Type: "user"}}}
					default:
						dup.Expr = t.Rels[ri].Expr.Clone() // the same rewrite again
					}
					pos := ri + 1 // adjacent
					if (variant/3)%2 == 1 {
						pos = len(t.Rels) // last
					}
					t.Rels = append(t.Rels[:pos], append([]gen.Relation{dup}, t.Rels[pos:]...)...)
					inj.posKey = fmt.Sprintf("rel:%02d:%02d", ti, pos)
					inj.msgHint = []string{"already defined"}
					return inj
				}
				idx++
			}
		}
	case 6:
		if site < len(d.Conds) {
			c := d.Conds[site]
			d.Conds = append(d.Conds, gen.Cond{Name: c.Name, Params: []gen.Param{{Name: "q", Type: "int"}}, Expr: "q > 0"})
			inj.posKey = fmt.Sprintf("cond:%02d", len(d.Conds)-1)
			inj.msgHint = []string{"already defined"}
			return inj
		}
	case 7:
		for ci := range d.Conds {
			c := &d.Conds[ci]
			for pi := range c.Params {
				if idx == site {
					dup := gen.Param{Name: c.Params[pi].Name, Type: "int"}
					switch variant % 4 {
					case 1: // the repeated declaration is a container type
						dup = gen.Param{Name: c.Params[pi].Name, Type: []string{"list", "map"}[(variant/4)%2], Generic: "string"}
					case 2: // exactly the same declaration again
						dup = c.Params[pi]
					case 3: // repeated right after the original instead of at the end
						c.Params = append(c.Params[:pi+1], append([]gen.Param{{Name: c.Params[pi].Name, Type: "bool"}}, c.Params[pi+1:]...)...)
						inj.posKey = fmt.Sprintf("param:%02d:%02d", ci, pi+1)
						inj.msgHint = []string{"already defined"}
						return inj
					}
					c.Params = append(c.Params, dup)
					inj.posKey = fmt.Sprintf("param:%02d:%02d", ci, len(c.Params)-1)
					inj.msgHint = []string{"already defined"}
					return inj
				}
				idx++
			}
		}
	case 8:
		if !modular && site < len(d.Types) {
			d.Types[site].Extend = true
			inj.posKey = fmt.Sprintf("type:%02d", site)
			inj.msgHint = []string{"extend can only be used"}
			return inj
		}
	case 9:
		if modular && site < len(d.Types) {
			d.Types[site].Extend = true
			nt := gen.TypeDef{Name: d.Types[site].Name, Extend: true}
			if variant%2 == 0 {
				nt.Rels = []gen.Relation{{Name: "qq", Expr: leafZZ()}}
			}
			d.Types = append(d.Types, nt)
			if variant%3 == 1 {
				// the file also DEFINES the type, before both extensions (a file may define and extend one type)
				plain := gen.TypeDef{Name: nt.Name}
				if variant%2 == 1 {
					plain.Rels = []gen.Relation{{Name: "pp", Expr: leafZZ()}}
				}
				already := false
				for _, t := range d.Types {
					if !t.Extend && t.Name == nt.Name {
						already = true
					}
				}
				if !already {
					d.Types = append([]gen.TypeDef{plain}, d.Types...)
				}
			}
			inj.posKey = fmt.Sprintf("type:%02d", len(d.Types)-1)
			inj.msgHint = []string{"already extended"}
			return inj
		}
	case 10:
		if site == 0 {
			inj.name = "both-headers"
			inj.flipAPI = true
			if modular {
				inj.post = func(s string) string { return "model\n  schema 1.1\n" + s }
			} else {
				inj.post = func(s string) string { return "module m\n" + s }
			}
		} else {
			inj.name = "no-header"
			inj.post = func(s string) string {
				// drop the header lines of the canonical rendering
				parts := strings.SplitN(s, "\n", 3)
				if modular {
					return strings.SplitN(s, "\n", 2)[1]
				}
				if len(parts) == 3 {
					return parts[2]
				}
				return ""
			}
		}
		return inj
	case 11:
		for ci := range d.Conds {
			c := &d.Conds[ci]
			for pi := range c.Params {
				if idx == site {
					p := &c.Params[pi]
					switch variant % 4 {
					case 0:
						p.Type, p.Generic = []string{"list", "map"}[(variant/4)%2], ""
					case 1:
						p.Type, p.Generic = "list", "map<int>"
					case 2:
						p.Type, p.Generic = "map", "list"
					case 3:
						p.Type, p.Generic = "list", "list<string>"
					}
					return inj
				}
				idx++
			}
		}
	}
	return nil
}

// checkInjection renders the injected document and runs the C09 / C16 monitors on it.
func checkInjection(run *core.Run, d *gen.Doc, inj *injection, l *gen.Layout) {
	modular := d.Module != ""
	txt := inj.post(d.Render(l))
	c := &core.Case{Kind: "injection", DSL: txt, Extra: map[string]string{"injection": inj.name, "modular": fmt.Sprint(modular)}}
	if inj.posKey != "" {
		p := l.Pos[inj.posKey]
		c.Ints = []int{p[0], p[1]}
		c.Strs = inj.msgHint
	}
	injectionVerdict(run, c)
}

// injectionVerdict is the monitor proper (also used by replay): the text must be rejected by both DSL entry
// points with a nil model; when a position is recorded, some error must sit exactly there.
func injectionVerdict(run *core.Run, c *core.Case) {
	run.Guard(c, func() { injectionVerdict1(run, c) })
}

func injectionVerdict1(run *core.Run, c *core.Case) {
	txt := c.DSL
	m1, err1 := transformer.TransformDSLToProto(txt)
	m2, ext, err2 := transformer.TransformModularDSLToProto(txt)
	if !parsedFinite(run, c, m1, m2) {
		return // the JSON entry point would marshal it: unbounded recursion, a fatal error of the process
	}
	js, err3 := transformer.TransformDSLToJSON(txt)
	run.Eval(3)
	name := c.Extra["injection"]
	run.Count("injections:"+name, 1)
	viol := func(p, class, exp, obs string) {
		if p == run.Prop {
			run.Violation(class, c, exp, obs)
		} else {
			run.Count("sibling_"+p+"_"+class, 1)
		}
	}
	if err1 == nil || m1 != nil || err2 == nil || m2 != nil || ext != nil || err3 == nil || js != "" {
		viol("C09", "accepted:"+name, "rejected with a non-nil error and no model by TransformDSLToProto, TransformModularDSLToProto and TransformDSLToJSON",
			fmt.Sprintf("TransformDSLToProto err=%v model-nil=%v; TransformModularDSLToProto err=%v model-nil=%v; TransformDSLToJSON err=%v", err1, m1 == nil, err2, m2 == nil, err3))
		return
	}
	run.NonTrivial(txt)
	// C16: positions
	ms := errRe.FindAllStringSubmatch(err1.Error(), -1)
	if len(ms) == 0 {
		viol("C16", "error-without-position:"+name, "syntax error at line=L, column=C", err1.Error())
		return
	}
	if why := boundsViolation(txt, err1.Error()); why != "" {
		viol("C16", "position-out-of-bounds", "0 <= line < number of lines, 0 <= column <= length of that line", why)
	}
	if len(c.Ints) == 2 {
		found := false
		// the message hint only tells several errors of one text apart; if no error of this text carries it (a
		// reworded message) the position alone decides
		anyHint := false
		for _, m := range ms {
			for _, h := range c.Strs {
				if strings.Contains(m[3], h) {
					anyHint = true
				}
			}
		}
		for _, m := range ms {
			ln, _ := strconv.Atoi(m[1])
			col, _ := strconv.Atoi(m[2])
			hint := len(c.Strs) == 0 || !anyHint
			for _, h := range c.Strs {
				if strings.Contains(m[3], h) {
					hint = true
				}
			}
			if ln == c.Ints[0] && col == c.Ints[1] && hint {
				found = true
			}
		}
		run.Count("exact_positions_checked", 1)
		if !found {
			viol("C16", "wrong-position:"+name, fmt.Sprintf("an error (%v) at line=%d, column=%d where the offending name stands", c.Strs, c.Ints[0], c.Ints[1]), err1.Error())
		}
	}
}

// boundsViolation checks every "line=L, column=C" of an error text against the input (DESIGN §7-g).
func boundsViolation(txt string, errText string) string {
	lines := strings.Split(txt, "\n")
	for _, m := range errRe.FindAllStringSubmatch(errText, -1) {
		ln, _ := strconv.Atoi(m[1])
		col, _ := strconv.Atoi(m[2])
		if ln < 0 || ln >= len(lines) {
			return fmt.Sprintf("line=%d but the input has %d lines (%s)", ln, len(lines), m[0])
		}
		if col < 0 || col > len([]rune(lines[ln])) {
			return fmt.Sprintf("column=%d but line %d has %d code points (%s)", col, ln, len([]rune(lines[ln])), m[0])
		}
	}
	return ""
}

func injectionLayout(r *rand.Rand, inj *injection) *gen.Layout {
	wild := r.Intn(3) != 0
	if inj.name == "both-headers" || inj.name == "no-header" {
		wild = false
	}
	l := &gen.Layout{R: r, Wild: wild, CRLF: wild && r.Intn(4) == 0, Comments: r.Intn(2) == 0}
	if wild && r.Intn(5) == 0 {
		l.Mixed, l.Comments = true, true // LF and CRLF line ends mixed in one file
	}
	if inj.name != "both-headers" && inj.name != "no-header" && r.Intn(48) == 0 {
		l.Long = 66000 + r.Intn(5000) // the defect sits behind a line longer than 64 KiB
	}
	return l
}

// runInjections drives the catalogue: quick = random (kind, site, variant) per AST; thorough = every kind x every site.
func runInjections(run *core.Run, nRandom, nExhaustive int) {
	core.Parallel(nRandom, func(i int) {
		r := run.Rng("inj", i)
		g := &gen.DSLGen{R: r}
		if i%400 == 123 {
			g.ForceDeep = 40 + r.Intn(25) // "at whatever position and nesting depth": injection sites 40-65 groups deep
			run.Count("injection_documents_with_40_to_65_nested_groups", 1)
		}
		base := g.Doc(r.Intn(3) == 0)
		for t := 0; t < 4; t++ {
			k := r.Intn(nInjKinds)
			n := siteCount(base, k)
			if n == 0 {
				continue
			}
			d := base.Clone()
			inj := applyInjection(d, k, r.Intn(n), r.Intn(24))
			if inj == nil {
				continue
			}
			l := injectionLayout(r, inj)
			checkInjection(run, d, inj, l)
			if t == 0 {
				run.SampleAt(i, nRandom/3+1, func() any { return inj.name + ":\n" + inj.post(d.Render(&gen.Layout{})) })
			}
		}
	})
	core.Parallel(nExhaustive, func(i int) {
		r := run.Rng("inj-all", i)
		g := &gen.DSLGen{R: r}
		base := g.Doc(r.Intn(3) == 0)
		for k := 0; k < nInjKinds; k++ {
			n := siteCount(base, k)
			// big documents offer thousands of sites: every site up to 40 per kind, beyond that an even sample of 12
			stride := 1
			if n > 40 {
				stride = n/12 + 1
				run.Count("kinds_with_sampled_sites", 1)
			}
			for site := 0; site < n; site += stride {
				d := base.Clone()
				inj := applyInjection(d, k, site, r.Intn(24))
				if inj == nil {
					continue
				}
				checkInjection(run, d, inj, injectionLayout(r, inj))
				run.Count("sites_enumerated", 1)
			}
		}
		run.Count("asts_with_all_sites_enumerated", 1)
	})
}

// ---- converse: every declaration of an accepted document is in the model ----

// cleanComments replicates the documented comment rule: full-line comments (indented with spaces) and " #..." tails.
func cleanComments(s string) string {
	var out []string
	for _, ln := range strings.Split(s, "\n") {
		t := strings.TrimLeft(ln, " ")
		if strings.HasPrefix(t, "#") {
			out = append(out, "")
			continue
		}
		if k := strings.Index(ln, " #"); k >= 0 {
			ln = ln[:k]
		}
		out = append(out, ln)
	}
	return strings.Join(out, "\n")
}

// countDecls counts type / define / condition declarations on the token stream of the real lexer.
func countDecls(txt string) (int, int, int) {
	lx := parser.NewOpenFGALexer(antlr.NewInputStream(cleanComments(txt)))
	lx.RemoveErrorListeners()
	var toks []antlr.Token
	for {
		t := lx.NextToken()
		if t.GetTokenType() == antlr.TokenEOF {
			break
		}
		if t.GetChannel() == antlr.TokenDefaultChannel {
			toks = append(toks, t)
		}
	}
	name := func(i int) string {
		if i < 0 || i >= len(toks) {
			return ""
		}
		tt := toks[i].GetTokenType()
		if tt < 0 || tt >= len(lx.SymbolicNames) {
			return ""
		}
		return lx.SymbolicNames[tt]
	}
	nT, nR, nC := 0, 0, 0
	inBracket, inBody := false, false
	for i := range toks {
		n := name(i)
		if inBody {
			if n == "RBRACE" {
				inBody = false
			}
			continue
		}
		if inBracket {
			if n == "RPRACKET" {
				inBracket = false
			}
			continue
		}
		switch n {
		case "LBRACKET":
			inBracket = true
			continue
		case "LBRACE":
			inBody = true
			continue
		}
		prev := name(i - 1)
		atLineStart := i == 0 || prev == "NEWLINE" || (prev == "WHITESPACE" && (i == 1 || name(i-2) == "NEWLINE"))
		switch n {
		case "TYPE":
			if (atLineStart || (prev == "WHITESPACE" && name(i-2) == "EXTEND")) && name(i+1) == "WHITESPACE" {
				nT++
			}
		case "DEFINE":
			if atLineStart && name(i+1) == "WHITESPACE" {
				nR++
			}
		case "CONDITION":
			if atLineStart {
				nC++
			}
		}
	}
	return nT, nR, nC
}

func converseCheck(run *core.Run, s string) {
	run.Guard(&core.Case{Kind: "converse", DSL: s}, func() { converseCheck1(run, s) })
}

func converseCheck1(run *core.Run, s string) {
	m, err := transformer.TransformDSLToProto(s)
	run.Eval(1)
	if err != nil {
		return
	}
	if !parsedFinite(run, &core.Case{Kind: "dsl", DSL: s}, m) {
		return
	}
	run.Count("accepted_mutants_scanned", 1)
	nT, nR, nC := countDecls(s)
	gR := 0
	for _, td := range m.GetTypeDefinitions() {
		gR += len(td.GetRelations())
	}
	if nT != len(m.GetTypeDefinitions()) || nR != gR || nC != len(m.GetConditions()) {
		c := &core.Case{Kind: "converse", DSL: s}
		run.Violation("declaration-not-reflected", c, fmt.Sprintf("declarations in the token stream: %d types, %d relations, %d conditions", nT, nR, nC),
			fmt.Sprintf("model: %d types, %d relations, %d conditions", len(m.GetTypeDefinitions()), gR, len(m.GetConditions())))
	}
}

func runC09(run *core.Run) {
	run.Level = "fault_enumeration"
	run.Rule = "G2 valid ASTs x catalogue of 12 injection kinds (mixed operators in 8 patterns, direct assignment at operand position >=1 and inside a later parenthesis, empty restriction list in 2 spellings, wildcard+relation in 2 spellings, duplicate relation x 6 variants, duplicate condition, duplicate parameter, extend in a model, double extend, both/no header, 5 bad container types) x injection sites (random in quick, every site of every kind for a share of the ASTs) x layouts; each text must be rejected with nil model by TransformDSLToProto, TransformModularDSLToProto and TransformDSLToJSON; plus the converse on accepted G4 mutants (declarations counted on the real lexer's token stream vs. the model); non-trivial = rejected injected text; distinct by text"
	runInjections(run, run.N(5000, 60000), run.N(300, 6000))
	corpus := gen.Corpus()
	nMut := run.N(30000, 500000)
	core.Parallel(nMut, func(i int) {
		r := run.Rng("c09-mut", i)
		converseCheck(run, gen.Mutate(r, corpus[r.Intn(len(corpus))]))
	})
	// the uninjected documents must be accepted, otherwise rejections above would mean nothing
	nValid := run.N(1000, 10000)
	core.Parallel(nValid, func(i int) {
		r := run.Rng("inj", i) // same ASTs as the injection stream
		g := &gen.DSLGen{R: r}
		if i%400 == 123 {
			g.ForceDeep = 40 + r.Intn(25)
		}
		d := g.Doc(r.Intn(3) == 0)
		txt := d.Render(&gen.Layout{R: r, Wild: true, Comments: true})
		var err error
		if d.Module != "" {
			_, _, err = transformer.TransformModularDSLToProto(txt)
		} else {
			_, err = transformer.TransformDSLToProto(txt)
		}
		run.Eval(1)
		if err != nil {
			run.Count("sibling_C03_valid_document_rejected", 1)
		} else {
			run.Count("uninjected_documents_accepted", 1)
		}
	})
}

func replayC09(run *core.Run, c *core.Case) {
	if c.Kind == "converse" {
		converseCheck(run, c.DSL)
		return
	}
	injectionVerdict(run, c)
}
