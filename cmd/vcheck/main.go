// vcheck: one driver, one sub-check per property. Usage:
//
//	vcheck -prop C04 -tier quick|thorough [-seed N]
//	vcheck -prop C04 -replay replays/C04-....json
package main

import (
	"flag"
	"fmt"
	"os"
	"strconv"
	"time"

	"verif/internal/core"
)

type propDef struct {
	run    func(*core.Run)
	replay func(*core.Run, *core.Case)
	floor  int // minimum distinct non-trivial cases below which the run is inconclusive
}

var props = map[string]propDef{}

func register(id string, run func(*core.Run), replay func(*core.Run, *core.Case), floor int) {
	props[id] = propDef{run, replay, floor}
}

func init() {
	for _, id := range []string{"C04", "C05", "C06", "C10", "C11"} {
		register(id, runWeighted, replayWeighted, 50)
	}
}

func main() {
	prop := flag.String("prop", "", "property id")
	tier := flag.String("tier", "quick", "quick|thorough")
	seedF := flag.Int64("seed", -1, "seed (default: VERIF_SEED or 1)")
	replay := flag.String("replay", "", "replay file")
	root := flag.String("root", "", "harness root (default: VERIF_ROOT or /verif)")
	worker := flag.String("worker", "", "internal: run as a worker process")
	deepSpec := flag.String("deep", "", "internal: depth,kind of the deep-nesting worker")
	flag.Parse()
	if *worker != "" {
		if *worker == "deep" {
			deepWorker(*deepSpec)
			return
		}
		runWorker(*worker)
		return
	}
	if *root != "" {
		core.Root = *root
	} else if e := os.Getenv("VERIF_ROOT"); e != "" {
		core.Root = e
	}
	seed := int64(1)
	if e := os.Getenv("VERIF_SEED"); e != "" {
		if v, err := strconv.ParseInt(e, 10, 64); err == nil {
			seed = v
		}
	}
	if *seedF >= 0 {
		seed = *seedF
	}
	if e := os.Getenv("VERIF_TIER"); e != "" && !flagSet("tier") {
		*tier = e
	}
	if *tier != "quick" && *tier != "thorough" {
		fmt.Println("unknown tier", *tier)
		os.Exit(2)
	}
	if *replay != "" {
		c, err := core.LoadCase(*replay)
		if err != nil {
			fmt.Println("cannot read replay file:", err)
			os.Exit(2)
		}
		if *prop == "" {
			*prop = c.Property
		}
		if c.Kind == "crash" {
			// the whole check is the case: run it again under the supervisor
			t := c.Extra["tier"]
			if t == "" {
				t = "quick"
			}
			os.Args = []string{os.Args[0], "-prop", *prop, "-tier", t}
			os.Exit(supervise(*prop, t, seed))
		}
		pd, ok := props[*prop]
		if !ok || pd.replay == nil {
			fmt.Println("no replay for property", *prop)
			os.Exit(2)
		}
		run := core.NewRun(*prop, "quick", seed)
		run.ReplayOnly = true
		pd.replay(run, c)
		if run.NumViolations() > 0 {
			fmt.Println("REPLAY: violation reproduced")
			os.Exit(1)
		}
		fmt.Println("REPLAY: no violation on this tree")
		os.Exit(0)
	}
	pd, ok := props[*prop]
	if !ok {
		fmt.Println("unknown property", *prop)
		os.Exit(2)
	}
	if os.Getenv("VERIF_CHILD") == "" && os.Getenv("VERIF_NO_SUPERVISOR") == "" {
		os.Exit(supervise(*prop, *tier, seed))
	}
	run := core.NewRun(*prop, *tier, seed)
	run.Floor = pd.floor
	if e := os.Getenv("VERIF_WATCHDOG_SECONDS"); e != "" {
		if n, err := strconv.Atoi(e); err == nil && n > 0 {
			core.WatchdogLimit = time.Duration(n) * time.Second
		}
	}
	pd.run(run)
	os.Exit(run.Finish(pd.floor))
}

func flagSet(name string) bool {
	set := false
	flag.Visit(func(f *flag.Flag) {
		if f.Name == name {
			set = true
		}
	})
	return set
}

func runWorker(kind string) {
	switch kind {
	case "dot":
		dotWorker()
	case "history":
		historyWorker()
	case "totality":
		totalityWorker()
	case "steps":
		stepsWorker()
	default:
		fmt.Println("unknown worker", kind)
		os.Exit(2)
	}
}
