package main

import (
	"bufio"
	"fmt"
	"io"
	"os"
	"os/exec"
	"regexp"
	"strings"
	"sync"

	"verif/internal/core"
)

// The checks call the code under test in-process. recover() turns its panics into violations, but some endings
// cannot be recovered: fatal runtime errors (stack exhaustion, concurrent map writes, out of memory) and a plain
// os.Exit / log.Fatal inside the library. A check that dies reports nothing - the worst outcome. So every check
// runs as a child of a small supervisor (the same binary): the child does the work and prints as before; if it ends
// without its SUMMARY line, the supervisor decides from what the child left behind:
//   - a frame of the repository on the dying stack, or the process ended "normally" (exit 0/1) from inside a case
//     (nothing in the harness exits before the summary)  -> VIOLATION of the running property, evidence written;
//   - anything else (a bug of the harness itself)        -> exit 2, as before.

var repoFrameRe = regexp.MustCompile(`(?m)^github\.com/openfga/language/pkg/go/(graph|transformer|utils|validation|gen|errors)[./]`)

// tailBuf keeps the first 64 KiB and the last ~192 KiB of what is written to it (a stack-exhaustion dump is
// megabytes long, its first lines say what happened).
type tailBuf struct {
	mu   sync.Mutex
	head []byte
	buf  []byte
}

func (t *tailBuf) Write(p []byte) (int, error) {
	t.mu.Lock()
	if room := (64 << 10) - len(t.head); room > 0 {
		t.head = append(t.head, p[:min(room, len(p))]...)
	}
	t.buf = append(t.buf, p...)
	if len(t.buf) > 256<<10 {
		t.buf = t.buf[len(t.buf)-(192<<10):]
	}
	t.mu.Unlock()
	return len(p), nil
}

func (t *tailBuf) String() string {
	t.mu.Lock()
	defer t.mu.Unlock()
	if len(t.buf) <= len(t.head) {
		return string(t.head)
	}
	return string(t.head) + "\n[...]\n" + string(t.buf)
}

func supervise(prop, tier string, seed int64) int {
	cmd := exec.Command(os.Args[0], os.Args[1:]...)
	cmd.Env = append(os.Environ(), "VERIF_CHILD=1")
	cmd.Stdin = os.Stdin
	stderrTail := &tailBuf{}
	cmd.Stderr = io.MultiWriter(os.Stderr, stderrTail)
	out, err := cmd.StdoutPipe()
	if err != nil {
		fmt.Println("HARNESS-ERROR cannot start the check process:", err)
		return 2
	}
	if err := cmd.Start(); err != nil {
		fmt.Println("HARNESS-ERROR cannot start the check process:", err)
		return 2
	}
	sawSummary := false
	stdoutTail := &tailBuf{}
	rd := bufio.NewReaderSize(out, 1<<20)
	for {
		line, rerr := rd.ReadString('\n')
		if line != "" {
			os.Stdout.WriteString(line)
			stdoutTail.Write([]byte(line))
			if strings.HasPrefix(line, "SUMMARY property=") {
				sawSummary = true
			}
		}
		if rerr != nil {
			break
		}
	}
	werr := cmd.Wait()
	code := 0
	if werr != nil {
		code = 2
		if ee, ok := werr.(*exec.ExitError); ok {
			code = ee.ExitCode()
		}
	}
	if sawSummary && (code == 0 || code == 1) {
		return code
	}
	left := stderrTail.String() + "\n" + stdoutTail.String()
	why := ""
	switch {
	case repoFrameRe.MatchString(left):
		why = "the check process died with a frame of the repository on the stack"
	case !sawSummary && (code == 0 || code == 1):
		why = fmt.Sprintf("the check process ended with exit status %d before its summary: the process was ended from inside a call of the code under test (os.Exit, log.Fatal ...)", code)
	default:
		fmt.Printf("HARNESS-ERROR the check process ended abnormally (exit status %d) and nothing points at the code under test\n", code)
		return 2
	}
	crash := stderrTail.String()
	if i := strings.Index(crash, "fatal error:"); i >= 0 {
		crash = crash[i:]
	} else if i := strings.Index(crash, "panic:"); i >= 0 {
		crash = crash[i:]
	}
	if len(crash) > 12000 {
		crash = crash[:12000] + "…"
	}
	first := strings.SplitN(strings.TrimSpace(crash), "\n", 2)[0]
	cls := "check-process-died"
	switch {
	case strings.Contains(first, "stack overflow") || strings.Contains(crash, "goroutine stack exceeds"):
		cls += ":stack-exhausted"
	case strings.Contains(first, "concurrent map"):
		cls += ":concurrent-map-access"
	case strings.Contains(first, "out of memory") || strings.Contains(first, "cannot allocate"):
		cls += ":out-of-memory"
	case strings.Contains(first, "all goroutines are asleep"):
		cls += ":deadlock"
	case first == "":
		cls += ":exit-from-inside-a-call"
	}
	run := core.NewRun(prop, tier, seed)
	switch prop { // the level the evidence record is kept at (as the check itself sets it)
	case "C09":
		run.Level = "fault_enumeration"
	case "C19":
		run.Level = "translation_validation"
	}
	run.Rule = "supervisor: the check process did not reach its summary"
	c := &core.Case{Kind: "crash", Text: crash, Extra: map[string]string{"tier": tier, "how_to_replay": "the check is deterministic for a given VERIF_SEED: run it again (./check " + prop + " " + tier + ")"}}
	run.Violation(cls, c, "every call of the code under test returns a result or an error to its caller", why+": "+first)
	run.Finish(0)
	return 1
}
