package main

import (
	"errors"
	"fmt"
	"math/rand"
	"strings"

	"github.com/openfga/language/pkg/go/transformer"

	"verif/internal/core"
)

// C15: fga.mod - accepted paths are safe, verbatim and correctly located.

func init() { register("C15", runC15, replayC15, 200) }

var pathAlphabet = []string{".", "/", "\\", "%", "2", "5", "e", "E", "f", "F", "c", "C", "+", "a", "g"}

// ---- R4: path predicate, written from the property text ----

func unsafeReason(p string) string {
	if strings.HasPrefix(p, "/") {
		return "absolute"
	}
	if strings.Contains(p, "\\") {
		return "backslash"
	}
	for _, seg := range strings.Split(p, "/") {
		if seg == ".." {
			return "dot-dot segment"
		}
	}
	if !strings.HasSuffix(p, ".fga") {
		return "no .fga suffix"
	}
	return ""
}

func hexVal(c byte) int {
	switch {
	case c >= '0' && c <= '9':
		return int(c - '0')
	case c >= 'a' && c <= 'f':
		return int(c-'a') + 10
	case c >= 'A' && c <= 'F':
		return int(c-'A') + 10
	}
	return -1
}

// pctDecode: own percent decoder (query flavour: '+' is a blank).
func pctDecode(s string) (string, bool) {
	var sb strings.Builder
	for i := 0; i < len(s); i++ {
		switch s[i] {
		case '%':
			if i+2 >= len(s) {
				return "", false
			}
			h, l := hexVal(s[i+1]), hexVal(s[i+2])
			if h < 0 || l < 0 {
				return "", false
			}
			sb.WriteByte(byte(h<<4 | l))
			i += 2
		case '+':
			sb.WriteByte(' ')
		default:
			sb.WriteByte(s[i])
		}
	}
	return sb.String(), true
}

// classify an entry as written: "reject" (must be answered with an error), "accept" (must be accepted and
// returned verbatim), or "" (either answer is fine, e.g. `foo../x.fga`).
func classifyEntry(w string) string {
	d, ok := pctDecode(w)
	if !ok {
		return "reject"
	}
	n := strings.ReplaceAll(d, "\\", "/")
	if unsafeReason(n) != "" {
		return "reject"
	}
	if strings.Contains(n, "../") {
		return "" // substring ../ without a .. segment
	}
	if !strings.ContainsAny(w, "%+\\") {
		return "accept"
	}
	return ""
}

// ---- manifest writer that records where every node starts ----

type ywriter struct {
	sb        strings.Builder
	line, col int
	lastBlock bool // the last scalar was written in literal / folded block style
}

func (x *ywriter) put(s string) {
	x.sb.WriteString(s)
	for _, r := range s {
		if r == '\n' {
			x.line++
			x.col = 0
		} else {
			x.col++
		}
	}
}

type ypos struct{ Line, Col int }

func dq(v string) string {
	v = strings.ReplaceAll(v, "\\", "\\\\")
	v = strings.ReplaceAll(v, "\"", "\\\"")
	return "\"" + v + "\""
}

func plainSafe(v string) bool {
	if v == "" || strings.ContainsAny(v[:1], "%\\-?:,[]{}#&*!|>'\"@` ") || strings.ContainsAny(v, "#:\\\"'") || strings.HasSuffix(v, " ") {
		return false
	}
	switch v {
	case "1.2", "true", "false", "null", "~", "yes", "no":
		return false
	}
	for _, c := range v {
		if c < 0x20 {
			return false
		}
	}
	// numbers would not be strings
	digits := true
	for _, c := range v {
		if !(c >= '0' && c <= '9' || c == '.' || c == 'e' || c == 'E' || c == '+' || c == '_') {
			digits = false
		}
	}
	return !digits
}

// writeScalar writes string v in the style chosen by k and returns where the node starts.
func writeScalar(x *ywriter, v string, style int, indent int, allowBlock bool) ypos {
	p := ypos{x.line, x.col}
	switch style % 8 {
	case 6:
		x.put("!!str ")
		style = 2
	case 7:
		x.put(fmt.Sprintf("&a%d ", style/8%100))
		style = 2
	}
	k := style % 6
	if k >= 3 && k <= 4 && (!allowBlock || strings.ContainsAny(v, "\n") || v == "" || strings.HasPrefix(v, " ") || strings.HasSuffix(v, " ")) {
		k = 2
	}
	if (k == 0 || k == 5) && !plainSafe(v) {
		k = 2
	}
	if k == 1 && strings.Contains(v, "'") {
		k = 2
	}
	x.lastBlock = k == 3 || k == 4
	switch k {
	case 0, 5:
		x.put(v)
	case 1:
		x.put("'" + v + "'")
	case 2:
		x.put(dq(v))
	case 3:
		x.put("|-\n" + strings.Repeat(" ", indent+2) + v)
	case 4:
		x.put(">-\n" + strings.Repeat(" ", indent+2) + v)
	}
	return p
}

type entry struct {
	Written string // the string value as written ("" with Raw set for non-string nodes)
	Raw     string // raw YAML for non-string nodes / aliases
	Class   string // accept | reject | ""
}

type manifest struct {
	Text      string
	Schema    ypos
	Contents  *ypos // where the sequence node starts (first "-" of a block sequence, "[" of a flow sequence)
	Items     []ypos
	Entries   []entry
	BadSchema string // "" or the way the schema is wrong: one more error is owed
}

func buildManifest(r *rand.Rand, entries []entry, fancy bool) manifest {
	x := &ywriter{}
	m := manifest{Entries: entries}
	if fancy && r.Intn(6) == 0 {
		// blank and whitespace-only lines before anything else: every position moves down with them
		x.put([]string{"\n", "\n\n", "  \n", "\n \n\n"}[r.Intn(4)])
	}
	if fancy && r.Intn(4) == 0 {
		x.put("# comment ü\n")
	}
	if fancy && r.Intn(6) == 0 {
		x.put("---\n")
	}
	flow := fancy && r.Intn(4) == 0
	writeSchema := func() {
		sp := 1
		if fancy {
			sp = 1 + r.Intn(3)
		}
		x.put("schema:" + strings.Repeat(" ", sp))
		st := 1
		if fancy {
			st = 1 + r.Intn(200)
			if st%6 == 0 || st%6 == 5 {
				st++
			}
		}
		if fancy && r.Intn(12) == 0 {
			// a schema fault next to (possibly offending) entries: every fault is owed its own error
			switch r.Intn(4) {
			case 0:
				m.BadSchema = "missing"
				x.sb.Reset()
				x.line, x.col = 0, 0
				return
			case 1:
				m.BadSchema = "wrong version"
				x.put("'1.1'\n")
			case 2:
				m.BadSchema = "not a string"
				x.put("1.2\n")
			case 3:
				m.BadSchema = "a list"
				x.put("['1.2']\n")
			}
			return
		}
		m.Schema = writeScalar(x, "1.2", st, 0, true)
		x.put("\n")
	}
	writeContents := func() {
		if flow {
			x.put("contents: ")
			m.Contents = &ypos{x.line, x.col}
			x.put("[")
			for k, e := range entries {
				if k > 0 {
					x.put("," + strings.Repeat(" ", r.Intn(3)))
					if r.Intn(4) == 0 {
						// a flow sequence wrapped over several lines: later entries may start in smaller columns
						x.put("\n" + strings.Repeat(" ", r.Intn(6)))
					}
				}
				if e.Raw != "" {
					m.Items = append(m.Items, ypos{x.line, x.col})
					x.put(e.Raw)
				} else {
					st := 1 + r.Intn(2)
					if r.Intn(4) == 0 {
						st = 6 + r.Intn(2) + 8*r.Intn(50)
					}
					m.Items = append(m.Items, writeScalar(x, e.Written, st, 0, false))
				}
			}
			x.put("]\n")
			return
		}
		x.put("contents:\n")
		ind := 2
		if fancy {
			ind = r.Intn(4)
		}
		for ei, e := range entries {
			gap := 1
			if fancy {
				gap = 1 + r.Intn(3)
			}
			if fancy && ei > 0 && r.Intn(8) == 0 && !(entries[ei-1].Raw == "" && x.lastBlock) { // (inside a block scalar they would be content)
				// blank and comment-only lines between entries move every later entry down
				x.put([]string{"\n", "# between ü\n", "   \n", "\n\n"}[r.Intn(4)])
			}
			x.put(strings.Repeat(" ", ind))
			if ei == 0 {
				m.Contents = &ypos{x.line, x.col}
			}
			x.put("-" + strings.Repeat(" ", gap))
			if e.Raw != "" {
				m.Items = append(m.Items, ypos{x.line, x.col})
				x.put(e.Raw)
			} else {
				st := 2
				if fancy {
					st = r.Intn(400)
				} else {
					st = 1 + r.Intn(2)
				}
				m.Items = append(m.Items, writeScalar(x, e.Written, st, ind, true))
			}
			if fancy && r.Intn(5) == 0 && !(e.Raw == "" && x.lastBlock) {
				x.put("   # trailing ü")
			}
			x.put("\n")
		}
	}
	if !fancy || r.Intn(2) == 0 {
		writeSchema()
		if m.BadSchema == "missing" {
			m.Contents, m.Items = nil, nil
		}
		writeContents()
	} else {
		writeContents()
		keep := x.sb.String()
		kl, kc := x.line, x.col
		writeSchema()
		if m.BadSchema == "missing" {
			x.put(keep) // the contents stay, only the schema key is absent
			x.line, x.col = kl, kc
		}
	}
	m.Text = x.sb.String()
	if fancy && r.Intn(7) == 0 {
		// Windows line ends: lines and columns of every node stay what they are
		m.Text = strings.ReplaceAll(m.Text, "\n", "\r\n")
	}
	return m
}

func runeAt(text string, line, col int) string {
	lines := strings.Split(text, "\n")
	if line < 0 || line >= len(lines) {
		return fmt.Sprintf("<line %d outside the %d lines>", line, len(lines))
	}
	rs := []rune(lines[line])
	if col < 0 || col > len(rs) {
		return fmt.Sprintf("<column %d outside line of %d code points>", col, len(rs))
	}
	return string(rs[col:])
}

// checkManifest is the monitor: m.Items / m.Schema may be nil positions (= not checked) for replayed cases.
func checkManifest(run *core.Run, m manifest) {
	run.Guard(&core.Case{Kind: "raw", Text: m.Text}, func() { checkManifest1(run, m) })
}

func checkManifest1(run *core.Run, m manifest) {
	c := &core.Case{Kind: "manifest", Text: m.Text}
	for _, e := range m.Entries {
		c.Strs = append(c.Strs, e.Written+"\x00"+e.Raw+"\x00"+e.Class)
	}
	for _, p := range m.Items {
		c.Ints = append(c.Ints, p.Line, p.Col)
	}
	c.Ints = append(c.Ints, m.Schema.Line, m.Schema.Col)
	c.Extra = map[string]string{"bad_schema": m.BadSchema}
	if m.Contents != nil {
		c.Extra["contents"] = fmt.Sprintf("%d,%d", m.Contents.Line, m.Contents.Col)
	}
	mf, err := transformer.TransformModFile(m.Text)
	run.Eval(1)
	minRej, maxRej := 0, 0
	if m.BadSchema != "" {
		minRej, maxRej = 1, 1
	}
	for _, e := range m.Entries {
		switch e.Class {
		case "reject":
			minRej++
			maxRej++
		case "":
			maxRej++
		}
	}
	if err != nil {
		var me *transformer.ModFileValidationMultipleError
		if !errors.As(err, &me) {
			// YAML-level error: only a problem when everything was plainly valid
			if maxRej == 0 {
				run.Violation("valid-manifest-not-parsed", c, "accepted", err.Error())
			}
			run.Count("yaml_errors", 1)
			return
		}
		run.Count("manifests_rejected", 1)
		n := len(me.Errors)
		if n < minRej || n > maxRej {
			run.Violation("error-count-differs-from-offending-entries", c, fmt.Sprintf("between %d and %d entry errors", minRej, maxRej), err.Error())
			return
		}
		// every error points into the text
		for _, e := range me.Errors {
			var ve *transformer.ModFileValidationError
			if errors.As(e, &ve) {
				if s := runeAt(m.Text, ve.Line, ve.Column); strings.HasPrefix(s, "<") {
					run.Violation("error-position-outside-manifest", c, "inside the text", s)
				}
			}
		}
		if minRej > 0 {
			run.NonTrivial(m.Text)
		}
		return
	}
	run.Count("manifests_accepted", 1)
	if minRej > 0 {
		run.Violation("offending-entry-accepted-or-filtered", c, fmt.Sprintf("rejected with %d..%d errors", minRej, maxRej), fmt.Sprintf("accepted with %d paths", len(mf.Contents.Value)))
		return
	}
	if mf.Schema.Value != "1.2" {
		run.Violation("accepted-schema-not-1.2", c, "1.2", mf.Schema.Value)
	}
	if len(mf.Contents.Value) != len(m.Entries) {
		run.Violation("entries-lost-or-invented", c, fmt.Sprint(len(m.Entries)), fmt.Sprint(len(mf.Contents.Value)))
		return
	}
	for k, it := range mf.Contents.Value {
		if why := unsafeReason(it.Value); why != "" {
			run.Violation("unsafe-path-returned:"+why, c, "safe relative .fga path", fmt.Sprintf("%q (written %q)", it.Value, m.Entries[k].Written))
		}
		w := m.Entries[k].Written
		if !strings.ContainsAny(w, "%+\\") && it.Value != w {
			run.Violation("path-not-verbatim-or-out-of-order", c, w, it.Value)
		}
		if k < len(m.Items) {
			if it.Line != m.Items[k].Line || it.Column != m.Items[k].Col {
				run.Violation("entry-position-wrong", c, fmt.Sprintf("line %d column %d", m.Items[k].Line, m.Items[k].Col), fmt.Sprintf("line %d column %d -> %q", it.Line, it.Column, runeAt(m.Text, it.Line, it.Column)))
			}
			run.Count("positions_checked", 1)
		}
	}
	if m.Contents != nil && (mf.Contents.Line != m.Contents.Line || mf.Contents.Column != m.Contents.Col) {
		run.Violation("contents-position-wrong", c, fmt.Sprintf("line %d column %d", m.Contents.Line, m.Contents.Col), fmt.Sprintf("line %d column %d -> %q", mf.Contents.Line, mf.Contents.Column, clipStr(runeAt(m.Text, mf.Contents.Line, mf.Contents.Column), 40)))
	}
	if len(m.Items) > 0 && (mf.Schema.Line != m.Schema.Line || mf.Schema.Column != m.Schema.Col) {
		run.Violation("schema-position-wrong", c, fmt.Sprintf("line %d column %d", m.Schema.Line, m.Schema.Col), fmt.Sprintf("line %d column %d", mf.Schema.Line, mf.Schema.Column))
	}
	run.NonTrivial(m.Text)
}

func mapStr(xs []string, f func(string) string) []string {
	out := make([]string, len(xs))
	for i, x := range xs {
		out[i] = f(x)
	}
	return out
}

func checkAliasManifest(run *core.Run, text string, ws []string) {
	c := &core.Case{Kind: "alias", Text: text, Strs: ws}
	run.Guard(c, func() {
		mf, err := transformer.TransformModFile(text)
		run.Eval(1)
		run.Count("alias_manifests", 1)
		if err != nil {
			run.Count("alias_manifests_rejected", 1)
			return
		}
		run.Count("alias_manifests_accepted", 1)
		if mf.Schema.Value != "1.2" {
			run.Violation("accepted-schema-not-1.2", c, "1.2", mf.Schema.Value)
		}
		if len(mf.Contents.Value) != len(ws) {
			run.Violation("entries-behind-an-alias-lost-or-invented", c, fmt.Sprintf("rejected, or the %d entries", len(ws)), fmt.Sprintf("accepted with %d paths", len(mf.Contents.Value)))
			return
		}
		for k, it := range mf.Contents.Value {
			if why := unsafeReason(it.Value); why != "" {
				run.Violation("unsafe-path-returned:"+why, c, "safe relative .fga path", fmt.Sprintf("%q (written %q)", it.Value, ws[k]))
			}
			if classifyEntry(ws[k]) == "reject" {
				run.Violation("offending-entry-accepted-or-filtered", c, "rejected", fmt.Sprintf("%q accepted as %q", ws[k], it.Value))
			}
			if !strings.ContainsAny(ws[k], "%+\\") && it.Value != ws[k] {
				run.Violation("path-not-verbatim-or-out-of-order", c, ws[k], it.Value)
			}
		}
		run.NonTrivial(text)
	})
}

func runC15(run *core.Run) {
	maxLen := 5
	if run.Tier == "thorough" {
		maxLen = 6
	}
	run.Rule = fmt.Sprintf("(a) exhaustive: every string over the 15-letter alphabet {. / \\ %% 2 5 e E f F c C + a g} up to length %d, with and without the .fga suffix, as the single entry of a manifest (double- or single-quoted carrier); (b) random multi-entry manifests mixing enumerated and longer hostile paths with non-string nodes and aliases, in block and flow sequences, plain/quoted/literal/folded scalars, tags, anchors, comments, document markers, non-ASCII; oracle R4: safety predicate on every returned path, must-accept / must-reject classes from an own percent decoder, error count within [must-reject, must-reject+undetermined], verbatim and order, writer-recorded positions; (c) manifests whose schema / contents / entry is an alias of a node anchored under another key or arrives through a merge key: rejected, or accepted with exactly the entries behind the alias, never fewer; non-trivial = accepted manifest or manifest with >=1 must-reject entry; distinct by text", maxLen)
	// (a) exhaustive
	total := 1
	pw := 1
	for l := 1; l <= maxLen; l++ {
		pw *= len(pathAlphabet)
		total += pw
	}
	core.Parallel(total, func(i int) {
		// decode i into a string: lengths in order
		n := i
		l := 0
		cnt := 1
		for n >= cnt {
			n -= cnt
			cnt *= len(pathAlphabet)
			l++
		}
		var sb strings.Builder
		for k := 0; k < l; k++ {
			sb.WriteString(pathAlphabet[n%len(pathAlphabet)])
			n /= len(pathAlphabet)
		}
		for _, w := range []string{sb.String(), sb.String() + ".fga"} {
			carrier := dq(w)
			if i%2 == 1 {
				carrier = "'" + w + "'"
			}
			text := "schema: '1.2'\ncontents:\n  - " + carrier + "\n"
			checkManifest(run, manifest{Text: text, Schema: ypos{0, 8}, Contents: &ypos{2, 2}, Items: []ypos{{2, 4}}, Entries: []entry{{Written: w, Class: classifyEntry(w)}}})
		}
	})
	run.Count("exhaustive_strings", int64(total))
	run.Count("exhaustive_max_length", int64(maxLen))
	run.Exhaustive = false
	// (b) random multi-entry, styled manifests
	names := []string{"a.fga", "core/b.fga", "ü/ñ.fga", "x y.fga", "m-1.fga", "deep/er/c.fga", "..fga", "a..fga", ".../x.fga", "a/./b.fga", "%2e%2e/x.fga", "..%2fx.fga", "..%5Cx.fga", "a%2Fb.fga",
		"%2Fabs.fga", "\\abs.fga", "c:\\x.fga", "a\\..\\b.fga", "x.FGA", "x.fga ", "x.fga/", "%zz.fga", "%", "a+b.fga", "a%20b.fga", "%2e%2e%2f%2e%2e%2fetc/passwd", "..", "../", "/..", "x/../y.fga", "x/..a/y.fga", "..x/y.fga", ".fga", "%2efga"}
	raws := []string{"1", "true", "null", "1.5", "[a.fga]", "{a: b}", "~", "!!int 3", "!!binary YS5mZ2E="}
	n := run.N(30000, 400000)
	core.Parallel(n, func(i int) {
		r := run.Rng("c15", i)
		var es []entry
		for k := 1 + r.Intn(4); k > 0; k-- {
			switch q := r.Intn(10); {
			case q < 6:
				w := names[r.Intn(len(names))]
				es = append(es, entry{Written: w, Class: classifyEntry(w)})
			case q < 8:
				var sb strings.Builder
				for j := 1 + r.Intn(9); j > 0; j-- {
					sb.WriteString(pathAlphabet[r.Intn(len(pathAlphabet))])
				}
				w := sb.String()
				if r.Intn(2) == 0 {
					w += ".fga"
				}
				es = append(es, entry{Written: w, Class: classifyEntry(w)})
			default:
				es = append(es, entry{Raw: raws[r.Intn(len(raws))], Class: "reject"})
			}
		}
		m := buildManifest(r, es, true)
		checkManifest(run, m)
		run.SampleAt(i, n/3+1, func() any { return m.Text })
	})
	// (c) properties whose value is an alias of a node anchored under another key (also through a merge key):
	// either answer is fine - rejected, or accepted with exactly the entries behind the alias - but nothing may be
	// dropped, and an offending entry behind an alias is still offending
	na := run.N(6000, 80000)
	core.Parallel(na, func(i int) {
		r := run.Rng("c15-alias", i)
		var ws []string
		for k := 1 + r.Intn(3); k > 0; k-- {
			ws = append(ws, names[r.Intn(len(names))])
		}
		list := func(ind string) string {
			var sb strings.Builder
			for _, w := range ws {
				sb.WriteString(ind + "- " + dq(w) + "\n")
			}
			return sb.String()
		}
		var text string
		switch r.Intn(6) {
		case 0:
			text = "files: &f\n" + list("  ") + "schema: '1.2'\ncontents: *f\n"
		case 1:
			text = "files: &f [" + strings.Join(mapStr(ws, dq), ", ") + "]\nschema: '1.2'\ncontents: *f\n"
		case 2:
			text = "ver: &v '1.2'\nschema: *v\ncontents:\n" + list("  ")
		case 3:
			text = "e: &e " + dq(ws[0]) + "\nschema: '1.2'\ncontents:\n  - *e\n" + list("  ")
			ws = append([]string{ws[0]}, ws...)
		case 4:
			text = "base: &b\n  contents:\n" + list("    ") + "<<: *b\nschema: '1.2'\n"
		case 5:
			text = "schema: &v '1.2'\ncontents: &f\n" + list("  ") + "again: *f\nver: *v\n"
		}
		checkAliasManifest(run, text, ws)
		run.SampleAt(i, na/2+1, func() any { return text })
	})
	// more offending entries than any plausible cap on the number of errors: one error each
	for _, k := range []int{101, 150, 257} {
		var sb strings.Builder
		sb.WriteString("schema: '1.2'\ncontents:\n")
		for i := 0; i < k; i++ {
			fmt.Fprintf(&sb, "  - ../x%d.fga\n", i)
		}
		_, err := transformer.TransformModFile(sb.String())
		run.Eval(1)
		got := -1
		if err != nil {
			got = strings.Count(err.Error(), "* ")
		}
		if got != k {
			run.Violation("error-count-differs-from-offending-entries", &core.Case{Kind: "raw", Text: sb.String()}, fmt.Sprintf("%d entry errors", k), fmt.Sprintf("%d ('* ' items in the error text)", got))
		}
		run.Count("manifests_with_many_offending_entries", 1)
	}
	// schema rules; anchors that contain an alias of themselves (the YAML library hands over a cyclic node graph)
	for _, s := range []string{"schema: '1.2'\ncontents: &a [*a]\n", "schema: '1.2'\ncontents:\n  - core.fga\n  - &s [x.fga, *s]\n", "shared: &s [*s]\nschema: '1.2'\ncontents: [*s]\n",
		"schema: '1.2'\ncontents: &m {k: *m}\n", "schema: &v [*v]\ncontents:\n  - a.fga\n", "schema: '1.2'\ncontents:\n  - &e {p: [*e, a.fga]}\n  - b.fga\n",
		"schema: 1.2\ncontents:\n  - a.fga\n", "schema: '1.1'\ncontents:\n  - a.fga\n", "contents:\n  - a.fga\n", "schema: '1.2'\n", "schema: '1.2'\ncontents: a.fga\n", "schema: [1.2]\ncontents:\n  - a.fga\n", "schema: ' 1.2'\ncontents:\n  - a.fga\n", "schema: \"1.2\\n\"\ncontents:\n  - a.fga\n"} {
		mf, err := transformer.TransformModFile(s)
		run.Eval(1)
		if err == nil {
			run.Violation("manifest-with-bad-schema-or-contents-accepted", &core.Case{Kind: "raw", Text: s}, "rejected", fmt.Sprintf("%+v", mf))
		}
	}
}

func replayC15(run *core.Run, c *core.Case) {
	if c.Kind == "alias" {
		checkAliasManifest(run, c.Text, c.Strs)
		return
	}
	if c.Kind == "raw" {
		_, err := transformer.TransformModFile(c.Text)
		if err == nil {
			run.Violation("manifest-with-bad-schema-or-contents-accepted", c, "rejected", "accepted")
		}
		return
	}
	m := manifest{Text: c.Text}
	for _, s := range c.Strs {
		p := strings.SplitN(s, "\x00", 3)
		m.Entries = append(m.Entries, entry{Written: p[0], Raw: p[1], Class: p[2]})
	}
	for i := 0; i+1 < len(c.Ints)-2; i += 2 {
		m.Items = append(m.Items, ypos{c.Ints[i], c.Ints[i+1]})
	}
	if len(c.Ints) >= 2 {
		m.Schema = ypos{c.Ints[len(c.Ints)-2], c.Ints[len(c.Ints)-1]}
	}
	m.BadSchema = c.Extra["bad_schema"]
	if s := c.Extra["contents"]; s != "" {
		p := ypos{}
		fmt.Sscanf(s, "%d,%d", &p.Line, &p.Col)
		m.Contents = &p
	}
	checkManifest(run, m)
}
