package main

import (
	"bufio"
	"encoding/json"
	"fmt"
	"os"
	"os/exec"
	"path/filepath"
	"regexp"
	"runtime/coverage"
	"runtime/debug"
	"strconv"
	"strings"
	"time"

	openfgav1 "github.com/openfga/api/proto/openfga/v1"
	"github.com/openfga/language/pkg/go/graph"
	"github.com/openfga/language/pkg/go/transformer"
	"github.com/openfga/language/pkg/go/utils"
	"github.com/openfga/language/pkg/go/validation"
)

// Child-process workers of C08.
//
//   totality: runs every entry point on the inputs [From,To) of one stream; the index of the input is written to
//             a file before the call (a fatal error is attributed to it by the parent); panics are recovered and
//             reported; the error-reporting consistency rule is checked on every DSL input.
//   steps:    (coverage-instrumented binary only) measures the logical work of single calls as the sum of the
//             Go coverage counters of the repository packages and of the dependency doing the work.

type totalitySpec struct {
	Seed      int64  `json:"seed"`
	Stream    string `json:"stream"`
	From      int    `json:"from"`
	To        int    `json:"to"`
	IndexFile string `json:"index_file"`
}

type childEvent struct {
	Idx     int    `json:"idx"`
	Entry   string `json:"entry,omitempty"`
	Panic   string `json:"panic,omitempty"`
	Stack   string `json:"stack,omitempty"`
	Class   string `json:"class,omitempty"` // other monitor classes (error consistency)
	Detail  string `json:"detail,omitempty"`
	Done    bool   `json:"done,omitempty"`
	Calls   int64  `json:"calls,omitempty"`
	Rejects int64  `json:"rejects,omitempty"`
	Accepts int64  `json:"accepts,omitempty"`
}

// guarded runs f and reports a panic as an event.
func guarded(out *json.Encoder, idx int, entry string, calls *int64, f func()) {
	*calls++
	defer func() {
		if r := recover(); r != nil {
			out.Encode(childEvent{Idx: idx, Entry: entry, Panic: fmt.Sprint(r), Stack: clipStr(string(debug.Stack()), 3000)})
		}
	}()
	f()
}

var wordRe = regexp.MustCompile(`[A-Za-z_][A-Za-z0-9_./-]*`)

// lineHelpers: the exported line-lookup helpers the merge errors are built with, on the lines of the text and with
// the words of the text itself (and the keywords) as the names looked for.
func lineHelpers(out *json.Encoder, idx int, text string, calls *int64) {
	if len(text) > 4000 {
		return
	}
	guarded(out, idx, "utils-line-numbers", calls, func() {
		lines := strings.Split(text, "\n")
		seen := map[string]bool{}
		words := []string{"type", "define", "condition", "extend", ""}
		for _, w := range wordRe.FindAllString(text, 40) {
			if !seen[w] && len(words) < 14 {
				seen[w] = true
				words = append(words, w)
			}
		}
		for _, w := range words {
			for _, i := range []int{utils.GetTypeLineNumber(w, lines), utils.GetExtendedTypeLineNumber(w, lines), utils.GetRelationLineNumber(w, lines), utils.GetConditionLineNumber(w, lines)} {
				utils.ConstructLineAndColumnData(lines, i, w)
			}
		}
	})
}

func exerciseInput(out *json.Encoder, in c08Input, calls, accepts, rejects *int64) {
	idx := in.Idx
	switch in.Stream {
	case "dsl":
		var m *openfgav1.AuthorizationModel
		var err error
		guarded(out, idx, "TransformDSLToProto", calls, func() { m, err = transformer.TransformDSLToProto(in.Text) })
		guarded(out, idx, "TransformDSLToJSON", calls, func() { transformer.TransformDSLToJSON(in.Text) })
		guarded(out, idx, "TransformModularDSLToProto", calls, func() { transformer.TransformModularDSLToProto(in.Text) })
		// errors are reported: ParseDSL collected errors <=> the transform returns an error and no model
		guarded(out, idx, "ParseDSL", calls, func() {
			_, el := transformer.ParseDSL(in.Text)
			collected := el != nil && el.Errors != nil
			if collected != (err != nil) || (err != nil && m != nil) || (err == nil && m == nil) {
				out.Encode(childEvent{Idx: idx, Class: "syntax-errors-not-reported-through-the-returned-error",
					Detail: fmt.Sprintf("ParseDSL collected errors: %v; TransformDSLToProto error: %v; model nil: %v", collected, err, m == nil)})
			}
		})
		lineHelpers(out, idx, in.Text, calls)
		if err != nil {
			*rejects++
		} else {
			*accepts++
			// accepted models go on to the printer and the graphs
			guarded(out, idx, "TransformJSONProtoToDSL(parsed)", calls, func() { transformer.TransformJSONProtoToDSL(m) })
			guarded(out, idx, "NewAuthorizationModelGraph(parsed)", calls, func() {
				if g, e := graph.NewAuthorizationModelGraph(m); e == nil {
					g.GetDOT()
				}
			})
			guarded(out, idx, "Build(parsed)", calls, func() { graph.NewWeightedAuthorizationModelGraphBuilder().Build(m) })
		}
	case "modfiles", "mergesets":
		mods := make([]transformer.ModuleFile, len(in.Files))
		for i, f := range in.Files {
			mods[i] = transformer.ModuleFile{Name: f.Name, Contents: f.Contents}
			if i < 3 {
				lineHelpers(out, idx, f.Contents, calls)
			}
		}
		guarded(out, idx, "TransformModuleFilesToModel", calls, func() {
			m, err := transformer.TransformModuleFilesToModel(mods, "1.2")
			if err != nil {
				*rejects++
				if m != nil {
					out.Encode(childEvent{Idx: idx, Class: "model-returned-together-with-an-error", Detail: err.Error()})
				}
			} else {
				*accepts++
			}
		})
	case "yaml":
		guarded(out, idx, "TransformModFile", calls, func() {
			mf, err := transformer.TransformModFile(in.Text)
			if err != nil {
				*rejects++
				if mf != nil {
					out.Encode(childEvent{Idx: idx, Class: "manifest-returned-together-with-an-error", Detail: err.Error()})
				}
			} else {
				*accepts++
			}
		})
	case "json":
		guarded(out, idx, "TransformJSONStringToDSL", calls, func() {
			if _, err := transformer.TransformJSONStringToDSL(in.Text); err != nil {
				*rejects++
			} else {
				*accepts++
			}
		})
		guarded(out, idx, "TransformJSONStringToDSL+source", calls, func() {
			transformer.TransformJSONStringToDSL(in.Text, transformer.WithIncludeSourceInformation(true))
		})
		guarded(out, idx, "LoadJSONStringToProto", calls, func() {
			if m, err := transformer.LoadJSONStringToProto(in.Text); err == nil {
				graph.NewAuthorizationModelGraph(m)
				graph.NewWeightedAuthorizationModelGraphBuilder().Build(m)
			}
		})
	case "models":
		m := in.Model
		guarded(out, idx, "TransformJSONProtoToDSL", calls, func() {
			if _, err := transformer.TransformJSONProtoToDSL(m); err != nil {
				*rejects++
			} else {
				*accepts++
			}
		})
		guarded(out, idx, "TransformJSONProtoToDSL+source", calls, func() {
			transformer.TransformJSONProtoToDSL(m, transformer.WithIncludeSourceInformation(true))
		})
		guarded(out, idx, "NewAuthorizationModelGraph", calls, func() {
			g, err := graph.NewAuthorizationModelGraph(m)
			if err != nil || g == nil {
				return
			}
			g.GetDOT()
			g.GetDrawingDirection()
			if rv, err := g.Reversed(); err == nil {
				rv.GetDOT()
			}
			n := 0
			for _, td := range m.GetTypeDefinitions() {
				g.GetNodeByLabel(td.GetType())
				for rn := range td.GetRelations() {
					g.PathExists(td.GetType(), td.GetType()+"#"+rn)
					n++
				}
			}
			if n <= 8 {
				g.GetCycles()
			}
		})
		guarded(out, idx, "WeightedAuthorizationModelGraphBuilder.Build", calls, func() {
			wg, err := graph.NewWeightedAuthorizationModelGraphBuilder().Build(m)
			if err == nil && wg != nil {
				for _, nd := range wg.GetNodes() {
					wg.GetEdgesFromNode(nd)
					nd.GetWeights()
				}
			}
		})
		guarded(out, idx, "utils", calls, func() {
			for _, td := range m.GetTypeDefinitions() {
				for rn, us := range td.GetRelations() {
					utils.GetModuleForObjectTypeRelation(td, rn)
					utils.IsRelationAssignable(us)
				}
				utils.GetModuleForObjectTypeRelation(td, "nosuch")
			}
			utils.IsRelationAssignable(nil)
			utils.GetModuleForObjectTypeRelation(nil, "x")
		})
	case "strings":
		guarded(out, idx, "validation", calls, func() {
			s := in.Text
			validation.ValidateObject(s)
			validation.ValidateUser(s)
			validation.ValidateType(s)
			validation.ValidateRelation(s)
			validation.ValidateObjectID(s)
			validation.ValidateRelationshipCondition(s)
		})
		guarded(out, idx, "utils-line-numbers", calls, func() {
			lines := strings.Split(in.Text, "\n")
			i := utils.GetTypeLineNumber("a", lines)
			utils.ConstructLineAndColumnData(lines, i, "a")
			utils.ConstructLineAndColumnData(nil, 0, "a")
			utils.ConstructLineAndColumnData(lines, utils.GetRelationLineNumber("", lines), "")
			utils.GetConditionLineNumber("a", lines)
			utils.GetExtendedTypeLineNumber("a", lines)
		})
	}
}

func totalityWorker() {
	var spec totalitySpec
	if err := json.NewDecoder(os.Stdin).Decode(&spec); err != nil {
		fmt.Println(`{"class":"bad-spec"}`)
		os.Exit(2)
	}
	debug.SetMaxStack(256 << 20)
	idxF, err := os.OpenFile(spec.IndexFile, os.O_CREATE|os.O_WRONLY, 0o644)
	if err != nil {
		os.Exit(2)
	}
	w := bufio.NewWriter(os.Stdout)
	out := json.NewEncoder(w)
	var calls, accepts, rejects int64
	for idx := spec.From; idx < spec.To; idx++ {
		idxF.WriteAt([]byte(fmt.Sprintf("%-20d", idx)), 0)
		in := makeC08Input(spec.Seed, spec.Stream, idx)
		exerciseInput(out, in, &calls, &accepts, &rejects)
		if idx%64 == 0 {
			w.Flush()
		}
	}
	out.Encode(childEvent{Done: true, Calls: calls, Accepts: accepts, Rejects: rejects})
	w.Flush()
}

// ---- step counter ----

type stepTask struct {
	Family string `json:"family"`
	N      int    `json:"n"`
	// for random mutants
	Stream string `json:"stream,omitempty"`
	Idx    int    `json:"idx,omitempty"`
	Seed   int64  `json:"seed,omitempty"`
	// HangTimes: multiple of the quadratic budget at which a still running call is given up (0 = 50)
	HangTimes float64 `json:"hang_times,omitempty"`
}

type stepResult struct {
	stepTask
	Len     int     `json:"len"`
	Steps   int64   `json:"steps"`
	WallMS  float64 `json:"wall_ms"`
	Hang    bool    `json:"hang,omitempty"`
	Err     string  `json:"err,omitempty"`
	Skipped string  `json:"skipped,omitempty"`
}

type stepCounter struct {
	dir string
	absCap float64 // absolute bound on the steps of one call (0 = none)
}

func newStepCounter() (*stepCounter, error) {
	dir, err := os.MkdirTemp("", "vsteps-")
	if err != nil {
		return nil, err
	}
	if err := coverage.WriteMetaDir(dir); err != nil {
		return nil, fmt.Errorf("this binary is not coverage-instrumented: %w", err)
	}
	return &stepCounter{dir: dir}, nil
}

// read decodes the counters accumulated since the last clear.
func (sc *stepCounter) read() (int64, error) {
	// remove old counter files
	old, _ := filepath.Glob(filepath.Join(sc.dir, "covcounters.*"))
	for _, f := range old {
		os.Remove(f)
	}
	if err := coverage.WriteCountersDir(sc.dir); err != nil {
		return 0, err
	}
	cmd := exec.Command("go", "tool", "covdata", "textfmt", "-i="+sc.dir, "-o=/dev/stdout")
	cmd.Env = append(os.Environ(), "GOFLAGS=-mod=mod", "GOTOOLCHAIN=local")
	out, err := cmd.Output()
	if err != nil {
		return 0, fmt.Errorf("covdata: %v", err)
	}
	var sum int64
	for i, ln := range strings.Split(string(out), "\n") {
		if i == 0 || ln == "" {
			continue
		}
		k := strings.LastIndexByte(ln, ' ')
		if k < 0 {
			continue
		}
		// count * number of statements would weigh long blocks more; the block count itself is the step
		c, _ := strconv.ParseInt(ln[k+1:], 10, 64)
		if strings.Contains(ln, "verif/cmd/vcheck") {
			continue // the harness' own blocks are not work of the code under test
		}
		sum += c
	}
	return sum, nil
}

const (
	stepQuadC     = 6300.0 // blocks per byte^2: 6x the worst legitimate family (nested parentheses)
	stepFloor     = 3e6
	stepHangTimes = 50.0
)

func quadBudget(n int) float64 {
	if n < 1 {
		n = 1
	}
	return stepQuadC*float64(n)*float64(n) + stepFloor
}

// measure runs f under the step counter; a watchdog looks at the counters every few seconds and declares a
// hang when the running call has used more than 50x its quadratic budget (logical criterion; the clock only
// decides when the counters are looked at).
func (sc *stepCounter) measure(n int, prev int64, f func()) (steps int64, hang bool, wall time.Duration, err error) {
	return sc.measureUpTo(n, prev, stepHangTimes, f)
}

func (sc *stepCounter) measureUpTo(n int, prev int64, hangTimes float64, f func()) (steps int64, hang bool, wall time.Duration, err error) {
	if err = coverage.ClearCounters(); err != nil {
		return
	}
	done := make(chan struct{})
	t0 := time.Now()
	go func() {
		defer func() {
			recover() // panics are the business of the totality monitor
			close(done)
		}()
		f()
	}()
	tick := time.NewTicker(4 * time.Second)
	defer tick.Stop()
	for {
		select {
		case <-done:
			wall = time.Since(t0)
			steps, err = sc.read()
			return
		case <-tick.C:
			s, e := sc.read()
			limit := hangTimes * quadBudget(n)
			if sc.absCap > 0 && limit > sc.absCap {
				limit = sc.absCap
			}
			if e == nil && float64(s) > limit {
				return s, true, time.Since(t0), nil
			}
			// relative criterion for scaled families: the previous (half as large) member took `prev` steps; a
			// quadratic family grows 4x per doubling, a cubic one 8x - a call that has already used 64x and is
			// still running grows faster than any polynomial of degree 6
			if e == nil && prev > 0 && s > 64*prev && s > 5e7 {
				return s, true, time.Since(t0), nil
			}
		}
	}
}

func stepsWorker() {
	sc, err := newStepCounter()
	if err != nil {
		fmt.Printf("{\"err\":%q}\n", err.Error())
		os.Exit(3)
	}
	defer os.RemoveAll(sc.dir)
	var tasks []stepTask
	if err := json.NewDecoder(os.Stdin).Decode(&tasks); err != nil {
		fmt.Printf("{\"err\":%q}\n", err.Error())
		os.Exit(2)
	}
	out := json.NewEncoder(os.Stdout)
	warmed := map[string]bool{}
	prevSteps := map[string]int64{}
	for _, t := range tasks {
		res := stepResult{stepTask: t}
		var call func()
		var n int
		if t.Family != "" {
			fam, ok := stepFamilies()[t.Family]
			if !ok {
				res.Err = "unknown family"
				out.Encode(res)
				continue
			}
			if !warmed[t.Family] {
				warmed[t.Family] = true
				_, wcall := fam.make(fam.warm)
				func() {
					defer func() { recover() }()
					wcall()
				}()
			}
			n, call = fam.make(t.N)
		} else {
			in := makeC08Input(t.Seed, t.Stream, t.Idx)
			n = len(in.Text)
			for _, f := range in.Files {
				n += len(f.Contents)
			}
			call = func() {
				var calls, a, r int64
				exerciseInput(json.NewEncoder(discard{}), in, &calls, &a, &r)
			}
		}
		res.Len = n
		ht := stepHangTimes
		if t.HangTimes > 0 {
			ht = t.HangTimes
		}
		// inputs of the random streams (no scaled family): the quadratic budget C*n^2 is calibrated on the worst
		// legitimate family at a few hundred bytes and is very loose for inputs of kilobytes - a call that has executed
		// 1.5e10 blocks (70 times the worst legitimate measurement) on such an input and is still running is not
		// going to finish in any useful sense
		sc.absCap = 4e10 // scaled families: twice the largest legitimate measurement of the thorough tier (nested parentheses at 8n)
		if t.Family == "" {
			sc.absCap = 1.5e10
		}
		steps, hang, wall, err := sc.measureUpTo(n, prevSteps[t.Family], ht, call)
		res.Steps, res.Hang, res.WallMS = steps, hang, float64(wall)/1e6
		if t.Family != "" && !hang {
			prevSteps[t.Family] = steps
		}
		if err != nil {
			res.Err = err.Error()
		}
		out.Encode(res)
		if hang {
			os.Exit(4) // the call is still running: the process cannot be reused
		}
	}
}

type discard struct{}

func (discard) Write(p []byte) (int, error) { return len(p), nil }
