package main

import (
	"encoding/json"
	"errors"
	"fmt"
	"math/rand"
	"regexp"
	"sort"
	"strings"

	openfgav1 "github.com/openfga/api/proto/openfga/v1"
	"github.com/openfga/language/pkg/go/transformer"
	"github.com/openfga/language/pkg/go/utils"
	"google.golang.org/protobuf/proto"

	"verif/internal/core"
	"verif/internal/gen"
)

// Module merge: G3 file-set generator, R3 merge oracle, and the monitors of C07, C12 and C16 (merge part).

var declRe = regexp.MustCompile(`^[ \t]*(extend[ \t]+type|type|condition|define)[ \t]+`)

func init() {
	register("C07", runMerge, replayMerge, 200)
	register("C12", runMerge, replayMerge, 200)
}

type mfile struct {
	Name   string
	Doc    *gen.Doc
	L      *gen.Layout
	Txt    string
	Broken string // "", "syntax", "nonmodule"
}

// conflict is one violated merge rule, with the sites at which an error may legitimately point.
type conflict struct {
	Kind   string           `json:"kind"` // duplicate-type | duplicate-condition | missing-extend-target | relation-clash | nonmodule | syntax
	Name   string           `json:"name"`
	Type   string           `json:"type,omitempty"`
	Sites  map[string][]int `json:"sites"`  // acceptable file -> acceptable 0-based lines
	Demand bool             `json:"demand"` // an error for exactly this conflict must be in the list
	Naive  string           `json:"naive"`  // prefix the known textual lookup (finding K2) searches for
}

type mergeExpect struct {
	Conflicts []conflict `json:"conflicts"`
	Model     string     `json:"model,omitempty"` // protojson of the expected model when conflict-free
	Schema    string     `json:"schema"`
}

// ---------- G3 ----------

var mergeTypePool = []string{"User", "USER2", "user", "user2", "us", "group", "doc", "folder", "org", "team", "a.b", "model", "type", "e"}
var mergeRelPool = []string{"Viewer", "VIEW", "viewer", "viewer2", "view", "editor", "owner", "member", "parent", "admin", "r", "relation", "type", "define1"}
var mergeCondPool = []string{"c1", "C1", "c10", "c", "C", "cond2", "is_valid", "doc", "group", "e"} // (the last three are also type names: separate namespaces)

func pickRewrite(r *rand.Rand, rels []string) *gen.Expr {
	leaf := func() *gen.Expr {
		switch r.Intn(3) {
		case 0:
			return &gen.Expr{Kind: "ttu", Name: rels[r.Intn(len(rels))], Tupleset: rels[r.Intn(len(rels))]}
		default:
			return &gen.Expr{Kind: "computed", Name: rels[r.Intn(len(rels))]}
		}
	}
	direct := func() *gen.Expr {
		rs := []gen.Restriction{{Type: "user"}}
		if r.Intn(3) == 0 {
			rs = append(rs, gen.Restriction{Type: "group", Relation: "member"})
		}
		if r.Intn(4) == 0 {
			rs = append(rs, gen.Restriction{Type: "user", Wildcard: true})
		}
		return &gen.Expr{Kind: "direct", Restr: rs}
	}
	switch r.Intn(6) {
	case 0:
		return leaf()
	case 1, 2:
		return direct()
	case 3:
		return &gen.Expr{Kind: "or", Kids: []*gen.Expr{direct(), leaf()}}
	case 4:
		return &gen.Expr{Kind: "and", Kids: []*gen.Expr{leaf(), &gen.Expr{Kind: "paren", Kids: []*gen.Expr{{Kind: "or", Kids: []*gen.Expr{leaf(), leaf()}}}}}}
	default:
		return &gen.Expr{Kind: "butnot", Kids: []*gen.Expr{direct(), leaf()}}
	}
}

type mergeGenOpt struct {
	DupNames     bool // two list entries may carry the same Name (C12 only: the line oracle of C16 needs unique names)
	Conflicts    int  // number of injections (0 = conflict free)
	ForceExtends bool // at least two files extend types
	HostileText  bool // layouts that defeat the textual line lookup
}

// genFileSet builds a conflict-free set of module files and then applies the requested number of injections.
func genFileSet(r *rand.Rand, o mergeGenOpt) []*mfile {
	nf := 1 + r.Intn(4)
	if o.ForceExtends && nf < 3 {
		nf = 3
	}
	if r.Intn(14) == 0 {
		nf = 8 + r.Intn(6) // many files: thresholds of batching / parallel parsing, sort routines beyond 12 elements
	}
	var files []*mfile
	typeOwner := map[string]int{}
	relsOf := map[string]map[string]bool{}
	usedConds := map[string]bool{}
	var defined []string
	tperm := r.Perm(len(mergeTypePool))
	tnext := 0
	for f := 0; f < nf; f++ {
		d := &gen.Doc{Module: []string{"core", "org", "m1", "a-b", "type"}[r.Intn(5)]}
		for k := r.Intn(3) + boolInt(f == 0); k > 0 && tnext < len(tperm); k-- {
			tn := mergeTypePool[tperm[tnext]]
			tnext++
			typeOwner[tn] = f
			defined = append(defined, tn)
			relsOf[tn] = map[string]bool{}
			td := gen.TypeDef{Name: tn}
			for q := r.Intn(4); q > 0; q-- {
				rn := mergeRelPool[r.Intn(len(mergeRelPool))]
				if relsOf[tn][rn] {
					continue
				}
				relsOf[tn][rn] = true
				td.Rels = append(td.Rels, gen.Relation{Name: rn, Expr: pickRewrite(r, mergeRelPool)})
			}
			d.Types = append(d.Types, td)
		}
		name := fmt.Sprintf("f%d.fga", f)
		if r.Intn(4) == 0 {
			name = []string{"dir/sub/f%d.fga", "f %d.fga", "f%d-é.fga", "../f%d.fga"}[r.Intn(4)]
			name = fmt.Sprintf(name, f)
		}
		if o.DupNames && f > 0 && r.Intn(3) == 0 {
			name = files[r.Intn(len(files))].Name
		}
		files = append(files, &mfile{Name: name, Doc: d})
	}
	// extensions (conflict free: fresh relation names per type, one extension of a type per file)
	extFiles := 0
	for f, mf := range files {
		d := mf.Doc
		extSeen := map[string]bool{}
		n := r.Intn(3)
		if o.ForceExtends && extFiles < 2 && n == 0 {
			n = 1
		}
		for k := n; k > 0 && len(defined) > 0; k-- {
			tn := defined[r.Intn(len(defined))]
			if extSeen[tn] {
				continue
			}
			extSeen[tn] = true
			td := gen.TypeDef{Name: tn, Extend: true}
			for q := r.Intn(3) + boolInt(o.ForceExtends); q > 0; q-- {
				rn := mergeRelPool[r.Intn(len(mergeRelPool))]
				if relsOf[tn][rn] {
					continue
				}
				relsOf[tn][rn] = true
				td.Rels = append(td.Rels, gen.Relation{Name: rn, Expr: pickRewrite(r, mergeRelPool)})
			}
			pos := r.Intn(len(d.Types) + 1)
			d.Types = append(d.Types[:pos], append([]gen.TypeDef{td}, d.Types[pos:]...)...)
		}
		if n > 0 {
			extFiles++
		}
		for k := r.Intn(3); k > 0; k-- {
			cn := mergeCondPool[r.Intn(len(mergeCondPool))]
			if usedConds[cn] {
				continue
			}
			usedConds[cn] = true
			d.Conds = append(d.Conds, gen.Cond{Name: cn, Params: []gen.Param{{Name: "x", Type: "int"}, {Name: "l", Type: "list", Generic: "string"}}, Expr: "x < 1"})
		}
		_ = f
	}
	// injections
	for c := 0; c < o.Conflicts; c++ {
		f := files[r.Intn(len(files))]
		d := f.Doc
		k := r.Intn(10)
		if f.Broken == "nonmodule" && (k < 6 || k == 9) {
			continue // declarations are only injected into module files
		}
		switch k {
		case 9: // two known conditions re-declared in ONE file, one name a prefix of the other, the longer one first
			pair := [][2]string{{"c10", "c1"}, {"c1", "c"}, {"cond2", "c"}, {"C1", "C"}, {"is_valid", "is_valid"}}[r.Intn(4)]
			if len(files) < 2 {
				continue
			}
			first := files[0]
			if first == f {
				first = files[1]
			}
			if first.Broken != "" || f.Broken != "" {
				continue
			}
			has := func(d *gen.Doc, n string) bool {
				for _, cd := range d.Conds {
					if cd.Name == n {
						return true
					}
				}
				return false
			}
			clean := true
			for _, n := range pair {
				if has(f.Doc, n) {
					clean = false
				}
			}
			if !clean {
				continue
			}
			for _, n := range pair {
				if !usedConds[n] {
					usedConds[n] = true
					first.Doc.Conds = append(first.Doc.Conds, gen.Cond{Name: n, Params: []gen.Param{{Name: "x", Type: "int"}}, Expr: "x < 1"})
				}
				d.Conds = append(d.Conds, gen.Cond{Name: n, Params: []gen.Param{{Name: "q", Type: "int"}}, Expr: "q > 0"})
			}
		case 0, 1: // duplicate type (other or same file)
			if len(defined) == 0 {
				continue
			}
			tn := defined[r.Intn(len(defined))]
			td := gen.TypeDef{Name: tn}
			if r.Intn(2) == 0 {
				td.Rels = []gen.Relation{{Name: "dup_rel", Expr: pickRewrite(r, mergeRelPool)}}
			}
			pos := r.Intn(len(d.Types) + 1)
			d.Types = append(d.Types[:pos], append([]gen.TypeDef{td}, d.Types[pos:]...)...)
		case 2: // duplicate condition in another file
			var names []string
			for cn := range usedConds {
				names = append(names, cn)
			}
			sort.Strings(names)
			if len(names) == 0 {
				continue
			}
			cn := names[r.Intn(len(names))]
			has := false
			for _, cd := range d.Conds {
				if cd.Name == cn {
					has = true
				}
			}
			if has {
				continue
			}
			// a look-alike first, so that a prefix lookup is tempted
			if o.HostileText && r.Intn(2) == 0 {
				la := cn + "0"
				if !usedConds[la] {
					usedConds[la] = true
					d.Conds = append(d.Conds, gen.Cond{Name: la, Params: []gen.Param{{Name: "x", Type: "int"}}, Expr: "x < 1"})
				}
			}
			d.Conds = append(d.Conds, gen.Cond{Name: cn, Params: []gen.Param{{Name: "q", Type: "int"}}, Expr: "q > 0"})
		case 3: // missing extend target
			td := gen.TypeDef{Name: []string{"missing", "nosuch", "user9"}[r.Intn(3)], Extend: true}
			dupExt := false
			for _, t := range d.Types {
				if t.Extend && t.Name == td.Name {
					dupExt = true
				}
			}
			if dupExt {
				continue
			}
			if r.Intn(2) == 0 {
				td.Rels = []gen.Relation{{Name: "q", Expr: pickRewrite(r, mergeRelPool)}}
			}
			pos := r.Intn(len(d.Types) + 1)
			d.Types = append(d.Types[:pos], append([]gen.TypeDef{td}, d.Types[pos:]...)...)
		case 4, 5: // relation clash: an extension contributes a name the type already has
			var cands []string
			for _, tn := range defined {
				if len(relsOf[tn]) > 0 {
					cands = append(cands, tn)
				}
			}
			if len(cands) == 0 {
				continue
			}
			tn := cands[r.Intn(len(cands))]
			var rns []string
			for rn := range relsOf[tn] {
				rns = append(rns, rn)
			}
			sort.Strings(rns)
			rn := rns[r.Intn(len(rns))]
			// extend block of tn in this file: existing or new
			var blk *gen.TypeDef
			for i := range d.Types {
				if d.Types[i].Extend && d.Types[i].Name == tn {
					blk = &d.Types[i]
				}
			}
			if blk == nil {
				pos := r.Intn(len(d.Types) + 1)
				d.Types = append(d.Types[:pos], append([]gen.TypeDef{{Name: tn, Extend: true}}, d.Types[pos:]...)...)
				blk = &d.Types[pos]
			}
			has := false
			for _, rel := range blk.Rels {
				if rel.Name == rn {
					has = true
				}
			}
			if has {
				continue
			}
			if o.HostileText && r.Intn(2) == 0 {
				blk.Rels = append(blk.Rels, gen.Relation{Name: "fresh_" + rn, Expr: pickRewrite(r, mergeRelPool)})
			}
			blk.Rels = append(blk.Rels, gen.Relation{Name: rn, Expr: pickRewrite(r, mergeRelPool)})
			if len(rns) > 1 && r.Intn(2) == 0 {
				// a second clash in the same extension block (order of the two errors must be stable)
				rn2 := rns[r.Intn(len(rns))]
				dup := false
				for _, rel := range blk.Rels {
					if rel.Name == rn2 {
						dup = true
					}
				}
				if !dup {
					blk.Rels = append(blk.Rels, gen.Relation{Name: rn2, Expr: pickRewrite(r, mergeRelPool)})
				}
			}
			if len(files) >= 2 && r.Intn(3) == 0 {
				// the SAME relation name clashes in a second file too (on another type that has it, or on the same type),
				// standing on a different line there: state kept per relation name across files shows here
				f2 := files[r.Intn(len(files))]
				if f2 != f && f2.Broken == "" {
					tn2 := tn
					for _, cand := range cands {
						if cand != tn && relsOf[cand][rn] && r.Intn(2) == 0 {
							tn2 = cand
						}
					}
					d2 := f2.Doc
					var blk2 *gen.TypeDef
					for i := range d2.Types {
						if d2.Types[i].Extend && d2.Types[i].Name == tn2 {
							blk2 = &d2.Types[i]
						}
					}
					if blk2 == nil {
						d2.Types = append(d2.Types, gen.TypeDef{Name: tn2, Extend: true})
						blk2 = &d2.Types[len(d2.Types)-1]
					}
					has2 := false
					for _, rel := range blk2.Rels {
						if rel.Name == rn {
							has2 = true
						}
					}
					if !has2 {
						for q := r.Intn(3); q > 0; q-- {
							pad := fmt.Sprintf("pad%d_%s", q, rn)
							if !relsOf[tn2][pad] {
								relsOf[tn2][pad] = true
								blk2.Rels = append(blk2.Rels, gen.Relation{Name: pad, Expr: pickRewrite(r, mergeRelPool)})
							}
						}
						blk2.Rels = append(blk2.Rels, gen.Relation{Name: rn, Expr: pickRewrite(r, mergeRelPool)})
					}
				}
			}
		case 6: // non-module file
			if f.Broken != "" {
				continue
			}
			nd := &gen.Doc{Schema: "1.1"}
			switch r.Intn(3) {
			case 0:
				nd.Types = []gen.TypeDef{{Name: "plain"}}
			case 1:
				nd.Types = []gen.TypeDef{{Name: "plain", Rels: []gen.Relation{{Name: "r", Expr: pickRewrite(r, mergeRelPool)}}}}
			case 2:
				nd.Types = []gen.TypeDef{{Name: "plain", Rels: []gen.Relation{{Name: "r", Expr: pickRewrite(r, mergeRelPool)}}}}
				nd.Conds = []gen.Cond{{Name: "nm_cond", Params: []gen.Param{{Name: "x", Type: "int"}}, Expr: "x < 1"}}
			}
			files = append(files, &mfile{Name: fmt.Sprintf("nomod%d.fga", len(files)), Doc: nd, Broken: "nonmodule"})
		case 7, 8: // syntax error
			if f.Broken == "" {
				f.Broken = "syntax"
			}
		}
	}
	// render
	for _, f := range files {
		wild := r.Intn(2) == 0
		f.L = &gen.Layout{R: r, Wild: wild, Comments: r.Intn(2) == 0, CRLF: wild && r.Intn(6) == 0}
		if o.HostileText && r.Intn(5) == 0 {
			f.L.CRLF = true // every line ends in CR LF: the raw lines of a textual lookup carry a trailing CR
		}
		if o.HostileText && r.Intn(40) == 0 {
			f.L.Long = 66000 + r.Intn(3000) // declarations behind a line longer than 64 KiB
		}
		f.Txt = f.Doc.Render(f.L)
		if f.Broken == "syntax" {
			garbage := []string{"\ntype\n", "\n  define x\n", "\ntype t t\n", "\n$\n", "\ncondition c( {\n}\n"}[r.Intn(5)]
			f.Txt = strings.TrimRight(f.Txt, "\r\n") + garbage
			if r.Intn(6) == 0 {
				f.Txt = []string{"", "\n", "  \n\n", "# only a comment\n"}[r.Intn(4)] // a blank file is no module either
			}
		}
	}
	if r.Intn(3) == 0 {
		r.Shuffle(len(files), func(i, j int) { files[i], files[j] = files[j], files[i] })
	}
	return files
}

func boolInt(b bool) int {
	if b {
		return 1
	}
	return 0
}

// ---------- R3: merge oracle ----------

func addSite(m map[string][]int, file string, line int) {
	for _, l := range m[file] {
		if l == line {
			return
		}
	}
	m[file] = append(m[file], line)
}

// mergeOracle computes, from the ASTs only, the conflicts and (when there is none) the attributed union.
func mergeOracle(files []*mfile, schema string) mergeExpect {
	exp := mergeExpect{Schema: schema}
	healthy := func(f *mfile) bool { return f.Broken == "" }
	for _, f := range files {
		if !healthy(f) {
			exp.Conflicts = append(exp.Conflicts, conflict{Kind: f.Broken, Name: f.Name, Sites: map[string][]int{f.Name: nil}, Demand: true})
		}
	}
	anyBroken := len(exp.Conflicts) > 0
	// type definitions
	owner := map[string]*mfile{}
	dupTypes := map[string]bool{}
	for _, f := range files {
		if !healthy(f) {
			continue
		}
		for ti, t := range f.Doc.Types {
			if t.Extend {
				continue
			}
			if _, ok := owner[t.Name]; ok {
				dupTypes[t.Name] = true
				c := conflict{Kind: "duplicate-type", Name: t.Name, Sites: map[string][]int{}, Demand: true, Naive: "type " + t.Name}
				// any plain declaration of that type in the blamed file is a legitimate site
				for tj, t2 := range f.Doc.Types {
					if !t2.Extend && t2.Name == t.Name {
						addSite(c.Sites, f.Name, f.L.Pos[fmt.Sprintf("type:%02d", tj)][0])
					}
				}
				_ = ti
				exp.Conflicts = append(exp.Conflicts, c)
				continue
			}
			owner[t.Name] = f
		}
	}
	// conditions
	condOwner := map[string]*mfile{}
	for _, f := range files {
		if !healthy(f) {
			continue
		}
		for ci, cd := range f.Doc.Conds {
			if _, ok := condOwner[cd.Name]; ok {
				c := conflict{Kind: "duplicate-condition", Name: cd.Name, Sites: map[string][]int{}, Demand: true, Naive: "condition " + cd.Name}
				addSite(c.Sites, f.Name, f.L.Pos[fmt.Sprintf("cond:%02d", ci)][0])
				exp.Conflicts = append(exp.Conflicts, c)
				continue
			}
			condOwner[cd.Name] = f
		}
	}
	// extensions
	definedSomewhere := func(tn string) (healthyDef, brokenDef bool) {
		for _, f := range files {
			for _, t := range f.Doc.Types {
				if !t.Extend && t.Name == tn {
					if healthy(f) {
						healthyDef = true
					} else {
						brokenDef = true
					}
				}
			}
		}
		return
	}
	type contrib struct {
		f      *mfile
		ti, ri int
		ext    bool
	}
	contribs := map[string][]contrib{} // type#rel
	for _, f := range files {
		if !healthy(f) {
			continue
		}
		for ti, t := range f.Doc.Types {
			if t.Extend {
				h, b := definedSomewhere(t.Name)
				if !h {
					c := conflict{Kind: "missing-extend-target", Name: t.Name, Sites: map[string][]int{}, Demand: !b, Naive: "extend type " + t.Name}
					addSite(c.Sites, f.Name, f.L.Pos[fmt.Sprintf("type:%02d", ti)][0])
					exp.Conflicts = append(exp.Conflicts, c)
					continue
				}
			} else if !isFirstDecl(files, f, ti) {
				continue // only the first definition of a type contributes base relations
			}
			for ri, rel := range t.Rels {
				k := t.Name + "#" + rel.Name
				contribs[k] = append(contribs[k], contrib{f, ti, ri, t.Extend})
			}
		}
	}
	var keys []string
	for k := range contribs {
		keys = append(keys, k)
	}
	sort.Strings(keys)
	for _, k := range keys {
		cs := contribs[k]
		if len(cs) < 2 {
			continue
		}
		tn, rn, _ := strings.Cut(k, "#")
		c := conflict{Kind: "relation-clash", Name: rn, Type: tn, Sites: map[string][]int{}, Demand: !dupTypes[tn], Naive: "define " + rn}
		for _, x := range cs {
			if x.ext {
				addSite(c.Sites, x.f.Name, x.f.L.Pos[fmt.Sprintf("rel:%02d:%02d", x.ti, x.ri)][0])
			}
		}
		exp.Conflicts = append(exp.Conflicts, c)
	}
	if len(exp.Conflicts) > 0 || anyBroken {
		return exp
	}
	// expected model: the attributed union
	m := &openfgav1.AuthorizationModel{SchemaVersion: schema, Conditions: map[string]*openfgav1.Condition{}}
	byName := map[string]*openfgav1.TypeDefinition{}
	expected := map[*mfile]*openfgav1.AuthorizationModel{}
	for _, f := range files {
		em, _ := f.Doc.Expected()
		expected[f] = em
		for idx, t := range f.Doc.Types {
			if t.Extend {
				continue
			}
			td := em.TypeDefinitions[idx]
			td.Metadata.SourceInfo = &openfgav1.SourceInfo{File: f.Name}
			m.TypeDefinitions = append(m.TypeDefinitions, td)
			byName[t.Name] = td
		}
		for _, c := range em.Conditions {
			c.Metadata.SourceInfo = &openfgav1.SourceInfo{File: f.Name}
			m.Conditions[c.Name] = c
		}
	}
	for _, f := range files {
		em := expected[f]
		for idx, t := range f.Doc.Types {
			if !t.Extend {
				continue
			}
			td := em.TypeDefinitions[idx]
			base := byName[t.Name]
			for rn, us := range td.Relations {
				if base.Relations == nil {
					base.Relations = map[string]*openfgav1.Userset{}
				}
				base.Relations[rn] = us
				if base.Metadata.Relations == nil {
					base.Metadata.Relations = map[string]*openfgav1.RelationMetadata{}
				}
				md := td.Metadata.Relations[rn]
				md.SourceInfo = &openfgav1.SourceInfo{File: f.Name}
				base.Metadata.Relations[rn] = md
			}
		}
	}
	exp.Model = modelJSON(m)
	return exp
}

func isFirstDecl(files []*mfile, f *mfile, ti int) bool {
	name := f.Doc.Types[ti].Name
	for _, g := range files {
		if g.Broken != "" {
			continue
		}
		for tj, t := range g.Doc.Types {
			if !t.Extend && t.Name == name {
				return g == f && tj == ti
			}
		}
	}
	return false
}

// ---------- monitors ----------

type mergeErr struct {
	Msg, File string
	Line, Col int
	ColEnd    int
	Syntax    bool
}

func flattenMergeErr(err error) ([]mergeErr, bool) {
	var me *transformer.ModuleValidationMultipleError
	if !errors.As(err, &me) {
		return nil, false
	}
	var out []mergeErr
	for _, e := range me.Errors {
		var se *transformer.ModuleTransformationSingleError
		if errors.As(e, &se) {
			out = append(out, mergeErr{Msg: se.Msg, File: se.File, Line: se.Line.Start, Col: se.Column.Start, ColEnd: se.Column.End})
		} else {
			out = append(out, mergeErr{Msg: e.Error(), Syntax: true})
		}
	}
	return out, true
}

func fmtMergeErrs(es []mergeErr) string {
	var p []string
	for _, e := range es {
		p = append(p, fmt.Sprintf("%s|%s|%d|%d", e.Msg, e.File, e.Line, e.Col))
	}
	return strings.Join(p, "\n")
}

func callMerge(mods []transformer.ModuleFile, schema string) (m *openfgav1.AuthorizationModel, err error, panicked string) {
	defer func() {
		if rec := recover(); rec != nil {
			panicked = fmt.Sprint(rec)
		}
	}()
	m, err = transformer.TransformModuleFilesToModel(mods, schema)
	return
}

func conflictMsgMatches(c conflict, e mergeErr) bool {
	switch c.Kind {
	case "duplicate-type":
		return e.Msg == "duplicate type definition "+c.Name
	case "duplicate-condition":
		return e.Msg == "duplicate condition "+c.Name
	case "missing-extend-target":
		return e.Msg == fmt.Sprintf("extended type %s does not exist", c.Name)
	case "relation-clash":
		return e.Msg == fmt.Sprintf("relation %s already exists on type %s", c.Name, c.Type)
	case "nonmodule":
		return e.Msg == "file is not a module" && e.File == c.Name
	case "syntax":
		return e.Syntax
	}
	return false
}

func naiveLine(prefix string, lines []string) int {
	for i, l := range lines {
		if strings.HasPrefix(strings.TrimSpace(l), prefix) {
			return i
		}
	}
	return 0 // ConstructLineAndColumnData answers line 0 when nothing is found
}

// checkMerge runs the merge monitors of run.Prop on one file set.
func checkMerge(run *core.Run, files []core.File, exp mergeExpect, r *rand.Rand, repeats int) {
	// registered with the watchdog: a merge that never comes back must end the run with a violation, not hang it
	expJSON, _ := json.Marshal(&exp)
	run.Guard(&core.Case{Kind: "merge", Files: files, Extra: map[string]string{"expect": string(expJSON)}}, func() { checkMerge1(run, files, exp, r, repeats) })
}

func checkMerge1(run *core.Run, files []core.File, exp mergeExpect, r *rand.Rand, repeats int) {
	expJSON, _ := json.Marshal(&exp)
	c := &core.Case{Kind: "merge", Files: files, Extra: map[string]string{"expect": string(expJSON)}}
	prop := run.Prop
	viol := func(p, class, e, o string) {
		if p == prop {
			run.Violation(class, c, e, o)
		} else {
			run.Count("sibling_"+p+"_"+class, 1)
		}
	}
	mods := make([]transformer.ModuleFile, len(files))
	byName := map[string]string{}
	for i, f := range files {
		mods[i] = transformer.ModuleFile{Name: f.Name, Contents: f.Contents}
		byName[f.Name] = f.Contents
	}
	snapshot := append([]transformer.ModuleFile{}, mods...)
	m, err, panicked := callMerge(mods, exp.Schema)
	run.Eval(1)
	for i := range mods {
		if mods[i] != snapshot[i] {
			viol("C13", "merge-modified-its-input-slice", "input slice unchanged", fmt.Sprintf("element %d changed", i))
		}
	}
	if panicked != "" {
		viol("C07", "panic", "a result or an error", "panic: "+panicked)
		viol("C08", "panic", "a result or an error", "panic: "+panicked)
		return
	}
	wantOK := len(exp.Conflicts) == 0
	var errs []mergeErr
	switch {
	case err == nil && m == nil:
		viol("C07", "nil-model-nil-error", "model or error", "both nil")
		return
	case err == nil && !wantOK:
		viol("C07", "conflict-accepted:"+exp.Conflicts[0].Kind, "rejected: "+describeConflicts(exp.Conflicts), "merge succeeded")
	case err != nil && wantOK:
		viol("C07", "conflict-free-set-rejected", "merge succeeds", err.Error())
	case err != nil:
		if m != nil {
			viol("C07", "partial-model-returned-with-error", "nil model on error", "non-nil model")
		}
		var ok bool
		errs, ok = flattenMergeErr(err)
		if !ok {
			viol("C07", "error-not-a-ModuleValidationMultipleError", "*ModuleValidationMultipleError", fmt.Sprintf("%T: %v", err, err))
			break
		}
		for _, cf := range exp.Conflicts {
			if !cf.Demand {
				continue
			}
			var hit *mergeErr
			for i := range errs {
				if conflictMsgMatches(cf, errs[i]) {
					if _, fileOK := cf.Sites[errs[i].File]; fileOK || cf.Kind == "syntax" {
						hit = &errs[i]
						break
					}
					if hit == nil {
						hit = &errs[i]
					}
				}
			}
			run.Count("conflicts_checked:"+cf.Kind, 1)
			if hit == nil {
				viol("C07", "conflict-not-reported:"+cf.Kind, "an error for "+describeConflicts([]conflict{cf}), fmtMergeErrs(errs))
				continue
			}
			if cf.Kind == "syntax" {
				// syntax errors surfacing through the merge carry no file: their positions are checked against the
				// file the generator injected the syntax error into (when exactly one file is broken that way)
				nSyntax := 0
				for _, x := range exp.Conflicts {
					if x.Kind == "syntax" {
						nSyntax++
					}
				}
				if nSyntax == 1 {
					for _, e := range errs {
						if e.Syntax {
							run.Count("merge_syntax_error_positions_bounds_checked", 1)
							if why := boundsViolation(byName[cf.Name], e.Msg); why != "" {
								viol("C16", "merge-syntax-error-position-out-of-bounds", "inside "+cf.Name, why)
							}
						}
					}
				}
				continue
			}
			if cf.Kind == "nonmodule" {
				continue
			}
			lines, fileOK := cf.Sites[hit.File]
			if !fileOK {
				viol("C07", "wrong-file-named:"+cf.Kind, "file among "+fmt.Sprint(siteFiles(cf)), hit.File)
				viol("C16", "merge-error-wrong-file:"+cf.Kind, "file among "+fmt.Sprint(siteFiles(cf)), hit.File)
				continue
			}
			// C16: the line
			run.Count("merge_positions_checked", 1)
			okLine := false
			for _, l := range lines {
				if l == hit.Line {
					okLine = true
				}
			}
			if !okLine {
				nv := naiveLine(cf.Naive, strings.Split(byName[hit.File], "\n"))
				if _, listed := run.FindingListed("K2"); listed && hit.Line == nv && prop == "C16" {
					run.Known("K2")
				} else if prop == "C16" {
					viol("C16", "merge-error-wrong-line:"+cf.Kind, fmt.Sprintf("file %s line among %v (naive lookup would say %d)", hit.File, lines, nv), fmt.Sprintf("line %d: %s", hit.Line, hit.Msg))
				} else {
					run.Count("sibling_C16_merge_line_off", 1)
				}
			} else {
				run.Count("merge_positions_correct", 1)
			}
			// bounds
			fl := strings.Split(byName[hit.File], "\n")
			if hit.Line < 0 || hit.Line >= len(fl) || hit.Col < 0 || hit.Col > len(fl[hit.Line]) || hit.ColEnd < hit.Col || hit.ColEnd > len(fl[hit.Line]) {
				viol("C16", "merge-error-position-out-of-bounds", "inside the file", fmt.Sprintf("line %d columns %d..%d (line has %d bytes)", hit.Line, hit.Col, hit.ColEnd, len(fl[min2(max2(hit.Line, 0), len(fl)-1)])))
			} else if hit.ColEnd > hit.Col {
				// "on the offending text": a column range, when one is given, covers the conflicting name
				run.Count("merge_column_ranges_checked", 1)
				if got := fl[hit.Line][hit.Col:hit.ColEnd]; got != cf.Name {
					viol("C16", "merge-error-columns-not-on-the-name:"+cf.Kind, fmt.Sprintf("columns covering %q", cf.Name), fmt.Sprintf("line %d columns %d..%d cover %q in %q", hit.Line, hit.Col, hit.ColEnd, got, fl[hit.Line]))
				} else if okLine {
					// ... and it is the DECLARED name they cover, not a later use of the same word on that line (a relation
					// referring to itself, a parameter named like its condition). Demanded only where the first
					// occurrence of the word on the line is the declaration (in `type e` the word also occurs in the keyword).
					if loc := declRe.FindStringIndex(fl[hit.Line]); loc != nil && strings.HasPrefix(fl[hit.Line][loc[1]:], cf.Name) && strings.Index(fl[hit.Line], cf.Name) == loc[1] {
						run.Count("merge_columns_checked_against_the_declared_name", 1)
						if hit.Col != loc[1] {
							viol("C16", "merge-error-columns-on-a-later-use-of-the-name:"+cf.Kind, fmt.Sprintf("column %d, where %q is declared", loc[1], cf.Name), fmt.Sprintf("line %d columns %d..%d in %q", hit.Line, hit.Col, hit.ColEnd, fl[hit.Line]))
						}
					}
				}
			}
		}
	default: // success as expected
		want, _ := modelFromJSON(exp.Model)
		if !proto.Equal(wsExprs(want), wsExprs(m)) {
			viol("C07", "merged-model-differs", exp.Model, modelJSON(m))
		}
		if m.GetSchemaVersion() != exp.Schema {
			viol("C07", "schema-version", exp.Schema, m.GetSchemaVersion())
		}
		for _, td := range m.GetTypeDefinitions() {
			for rn := range td.GetRelations() {
				mod, e := utils.GetModuleForObjectTypeRelation(td, rn)
				wantMod := td.GetMetadata().GetModule()
				if md := want.GetTypeDefinitions(); md != nil {
					for _, wtd := range md {
						if wtd.GetType() == td.GetType() {
							if rm := wtd.GetMetadata().GetRelations()[rn]; rm.GetModule() != "" {
								wantMod = rm.GetModule()
							} else {
								wantMod = wtd.GetMetadata().GetModule()
							}
						}
					}
				}
				if e != nil || mod != wantMod {
					viol("C07", "GetModuleForObjectTypeRelation", wantMod, fmt.Sprintf("%q, %v", mod, e))
				}
			}
		}
	}
	if wantOK {
		run.Count("conflict_free_sets", 1)
	} else {
		run.Count("sets_with_conflicts", 1)
	}

	// C12: repeat equality and permutations
	if prop != "C12" && prop != "C07" {
		return
	}
	first := ""
	if err != nil {
		first = "ERR\n" + fmtMergeErrs(errs) + "\n" + err.Error()
	}
	for k := 0; k < repeats; k++ {
		m2, err2, p2 := callMerge(mods, exp.Schema)
		run.Eval(1)
		if p2 != "" {
			viol("C07", "panic", "a result or an error", "panic: "+p2)
			return
		}
		if (err2 == nil) != (err == nil) {
			viol("C12", "verdict-differs-between-invocations", fmt.Sprint(err), fmt.Sprint(err2))
			return
		}
		if err2 != nil {
			es2, _ := flattenMergeErr(err2)
			if s := "ERR\n" + fmtMergeErrs(es2) + "\n" + err2.Error(); s != first {
				viol("C12", "error-list-differs-between-invocations", first, s)
				return
			}
		} else if !proto.Equal(m, m2) || typeNames(m) != typeNames(m2) {
			viol("C12", "model-differs-between-invocations", modelJSON(m), modelJSON(m2))
			return
		}
	}
	run.Count("repeat_invocations", int64(repeats))
	nperm := 0
	tryPerm := func(p []int) {
		pm := make([]transformer.ModuleFile, len(mods))
		for i, pi := range p {
			pm[i] = mods[pi]
		}
		m2, err2, p2 := callMerge(pm, exp.Schema)
		run.Eval(1)
		nperm++
		if p2 != "" {
			viol("C07", "panic", "a result or an error", "panic under permutation: "+p2)
			return
		}
		if (err2 == nil) != (err == nil) {
			viol("C12", "verdict-depends-on-file-order", fmt.Sprintf("order %v: err=%v", identity(len(mods)), err), fmt.Sprintf("order %v: err=%v", p, err2))
			return
		}
		if err2 == nil && !proto.Equal(sortTypes(m), sortTypes(m2)) {
			viol("C12", "model-depends-on-file-order", modelJSON(sortTypes(m)), fmt.Sprintf("order %v: %s", p, modelJSON(sortTypes(m2))))
		}
	}
	if len(mods) > 1 {
		if len(mods) <= 4 && run.Prop == "C12" {
			permsOf(len(mods), func(p []int) { tryPerm(append([]int{}, p...)) })
			run.Count("sets_with_all_permutations", 1)
		} else {
			for k := 0; k < 3; k++ {
				tryPerm(r.Perm(len(mods)))
			}
		}
	}
	run.Count("permutations_run", int64(nperm))
}

func identity(n int) []int {
	p := make([]int, n)
	for i := range p {
		p[i] = i
	}
	return p
}

func typeNames(m *openfgav1.AuthorizationModel) string {
	var p []string
	for _, td := range m.GetTypeDefinitions() {
		p = append(p, td.GetType())
	}
	return strings.Join(p, ",")
}

func sortTypes(m *openfgav1.AuthorizationModel) *openfgav1.AuthorizationModel {
	c := proto.Clone(m).(*openfgav1.AuthorizationModel)
	sort.SliceStable(c.TypeDefinitions, func(i, j int) bool { return c.TypeDefinitions[i].GetType() < c.TypeDefinitions[j].GetType() })
	return c
}

func siteFiles(c conflict) []string {
	var fs []string
	for f := range c.Sites {
		fs = append(fs, f)
	}
	sort.Strings(fs)
	return fs
}

func describeConflicts(cs []conflict) string {
	var p []string
	for _, c := range cs {
		p = append(p, fmt.Sprintf("%s %s%s in %v", c.Kind, c.Type+map[bool]string{true: "#", false: ""}[c.Type != ""], c.Name, siteFiles(c)))
	}
	return strings.Join(p, "; ")
}

func toCoreFiles(files []*mfile) []core.File {
	out := make([]core.File, len(files))
	for i, f := range files {
		out[i] = core.File{Name: f.Name, Contents: f.Txt}
	}
	return out
}

var schemaPool = []string{"1.2", "1.1", "", "2.0-beta", "x y", "1.2\n"}

func runMerge(run *core.Run) {
	var n, repeats int
	switch run.Prop {
	case "C07":
		n, repeats = run.N(8000, 200000), 1
		run.Rule = "G3 generated module file sets (1-5 files, 5 module names, types with random rewrites, files extending types of any file incl. their own, conditions, hostile file names), conflict free by construction then 0-3 injections out of: duplicate type (same/other file), duplicate condition, missing extend target, relation clash (extension vs base, extension vs extension), non-module file (3 shapes), syntax error (5 shapes); R3 oracle computed from the ASTs: conflict predicate, demanded errors with acceptable files, and the expected attributed union compared with proto.Equal; schema version drawn from 6 strings; non-trivial = set with >=1 extension or >=1 conflict; distinct by file contents"
	case "C12":
		n, repeats = run.N(2500, 40000), run.N(12, 40)
		run.Rule = "G3 file sets biased to >=2 extending files and >=2 simultaneous conflicts; each set merged k times (k=12 quick / 40 thorough) and the results compared (models with proto.Equal and type order, error lists as ordered (msg,file,line,column) tuples and full text); every permutation of the file list for <=4 files (3 random ones above): verdict invariant, model equal up to type order; non-trivial = >=2 files; distinct by file contents"
	}
	core.Parallel(n, func(i int) {
		r := run.Rng("merge", i)
		o := mergeGenOpt{HostileText: r.Intn(2) == 0}
		switch {
		case run.Prop == "C12":
			o.ForceExtends = r.Intn(2) == 0
			o.DupNames = r.Intn(4) == 0
			o.Conflicts = []int{0, 0, 1, 2, 2, 3}[r.Intn(6)]
		default:
			o.Conflicts = []int{0, 0, 0, 1, 1, 2, 3}[r.Intn(7)]
			// two entries of the list may carry the same Name (the merger keys its maps by it); C16 keeps unique names
			o.DupNames = run.Prop == "C07" && r.Intn(5) == 0
		}
		files := genFileSet(r, o)
		exp := mergeOracle(files, schemaPool[r.Intn(len(schemaPool))])
		cf := toCoreFiles(files)
		checkMerge(run, cf, exp, r, repeats)
		nontrivial := len(exp.Conflicts) > 0
		for _, f := range files {
			for _, t := range f.Doc.Types {
				if t.Extend {
					nontrivial = true
				}
			}
		}
		if run.Prop == "C12" {
			nontrivial = len(files) > 1
		}
		if nontrivial {
			var sb strings.Builder
			for _, f := range cf {
				sb.WriteString(f.Name + "\x00" + f.Contents + "\x00")
			}
			run.NonTrivial(sb.String())
		}
		run.SampleAt(i, n/3+1, func() any { return map[string]any{"files": cf, "conflicts": exp.Conflicts} })
	})
}

func replayMerge(run *core.Run, c *core.Case) {
	var exp mergeExpect
	if err := json.Unmarshal([]byte(c.Extra["expect"]), &exp); err != nil {
		fmt.Println("cannot decode expectation:", err)
		return
	}
	checkMerge(run, c.Files, exp, run.Rng("replay", 0), 40)
}

func max2(a, b int) int {
	if a > b {
		return a
	}
	return b
}
