package main

import (
	"fmt"

	openfgav1 "github.com/openfga/api/proto/openfga/v1"

	"verif/internal/core"
)

// A model returned by the library is a finite tree of rewrites. A listener slip that aliases operand slices can make
// an operator its own descendant; every protobuf function (Equal, Clone, Marshal) then recurses until the stack is
// exhausted - a fatal error no recover() sees. So every model the parser returns is looked at here first.
func cyclicModel(m *openfgav1.AuthorizationModel) string {
	for _, td := range m.GetTypeDefinitions() {
		for rn, us := range td.GetRelations() {
			onPath := map[*openfgav1.Userset]bool{}
			nodes := 0
			var walk func(u *openfgav1.Userset, depth int) string
			walk = func(u *openfgav1.Userset, depth int) string {
				if u == nil {
					return ""
				}
				if onPath[u] {
					return fmt.Sprintf("relation %s#%s: a rewrite node is its own descendant (depth %d)", td.GetType(), rn, depth)
				}
				nodes++
				if nodes > 5_000_000 || depth > 200_000 {
					return fmt.Sprintf("relation %s#%s: rewrite with more than %d nodes / depth %d", td.GetType(), rn, nodes, depth)
				}
				onPath[u] = true
				defer delete(onPath, u)
				var kids []*openfgav1.Userset
				kids = append(kids, u.GetUnion().GetChild()...)
				kids = append(kids, u.GetIntersection().GetChild()...)
				if d := u.GetDifference(); d != nil {
					kids = append(kids, d.GetBase(), d.GetSubtract())
				}
				for _, k := range kids {
					if why := walk(k, depth+1); why != "" {
						return why
					}
				}
				return ""
			}
			if why := walk(us, 0); why != "" {
				return why
			}
		}
	}
	return ""
}

// parsedFinite reports a violation and answers false when one of the models is no finite tree.
func parsedFinite(run *core.Run, c *core.Case, ms ...*openfgav1.AuthorizationModel) bool {
	for _, m := range ms {
		if why := cyclicModel(m); why != "" {
			run.Violation("returned-model-is-not-a-finite-tree", c, "a finite tree of rewrites", why)
			return false
		}
	}
	return true
}
