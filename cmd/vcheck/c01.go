package main

import (
	"fmt"
	"strings"

	openfgav1 "github.com/openfga/api/proto/openfga/v1"
	"github.com/openfga/language/pkg/go/transformer"
	"google.golang.org/protobuf/proto"

	"verif/internal/core"
	"verif/internal/gen"
)

// C01: d -> M1 -> D1 -> M2 -> D2 -> M3 -> D3 on both API paths.

func init() { register("C01", runC01, replayC01, 200) }

func modelKey(m *openfgav1.AuthorizationModel) string {
	b, err := proto.MarshalOptions{Deterministic: true}.Marshal(m)
	if err != nil {
		return err.Error()
	}
	return string(b)
}

func trimExprs(m *openfgav1.AuthorizationModel) *openfgav1.AuthorizationModel {
	c := proto.Clone(m).(*openfgav1.AuthorizationModel)
	for _, cd := range c.GetConditions() {
		// "modulo surrounding/trailing whitespace" (DESIGN §7-a): around the expression and at the end of its lines
		lines := strings.Split(strings.TrimSpace(cd.Expression), "\n")
		for i := range lines {
			lines[i] = strings.TrimRight(lines[i], " ")
		}
		cd.Expression = strings.Join(lines, "\n")
	}
	return c
}

func hasOperatorOrDirect(m *openfgav1.AuthorizationModel) bool {
	for _, td := range m.GetTypeDefinitions() {
		for _, us := range td.GetRelations() {
			if us.GetComputedUserset() == nil && us.GetTupleToUserset() == nil {
				return true
			}
		}
	}
	return len(m.GetConditions()) > 0
}

// roundTrip runs the C01 monitor on one text. It returns false when the text is outside the property's domain.
func roundTrip(run *core.Run, d string, origin string) (in bool) {
	run.Guard(&core.Case{Kind: "dsl", DSL: d, Extra: map[string]string{"origin": origin}}, func() { in = roundTrip1(run, d, origin) })
	return in
}

func roundTrip1(run *core.Run, d string, origin string) bool {
	c := &core.Case{Kind: "dsl", DSL: d, Extra: map[string]string{"origin": origin}}
	m1, err := transformer.TransformDSLToProto(d)
	run.Eval(1)
	if err != nil {
		run.Count("inputs_rejected_by_parser", 1)
		return false
	}
	if !parsedFinite(run, c, m1) {
		return true
	}
	if m1.GetSchemaVersion() == "" {
		run.Count("inputs_skipped_module_file", 1)
		return false
	}
	for _, cd := range m1.GetConditions() {
		if strings.Contains(cd.GetExpression(), "#") {
			run.Count("inputs_skipped_hash_in_condition", 1)
			return false
		}
	}
	run.Count("accepted_full_models", 1)
	snap := proto.Clone(m1).(*openfgav1.AuthorizationModel)

	// path A: the in-memory model goes straight to the printer
	d1, err := transformer.TransformJSONProtoToDSL(m1)
	if err != nil {
		run.Violation("render-fails-direct-path", c, "rendering of an accepted model succeeds", err.Error())
		return true
	}
	if !proto.Equal(snap, m1) {
		run.Count("sibling_C13_printer_modified_its_input", 1)
	}
	// path B: JSON string API
	js, err := transformer.TransformDSLToJSON(d)
	if err != nil {
		run.Violation("dsl-to-json-fails", c, "TransformDSLToJSON succeeds when TransformDSLToProto does", err.Error())
		return true
	}
	d1b, err := transformer.TransformJSONStringToDSL(js)
	if err != nil {
		run.Violation("render-fails-json-path", c, "rendering of an accepted model succeeds", err.Error())
		return true
	}
	if *d1b != d1 {
		run.Violation("paths-render-differently", c, d1, *d1b)
		return true
	}
	m2, err := transformer.TransformDSLToProto(d1)
	if err != nil {
		run.Violation("rendering-does-not-parse", c, "the rendering parses", d1+"\n"+err.Error())
		return true
	}
	if !parsedFinite(run, c, m2) {
		return true
	}
	if !proto.Equal(trimExprs(m1), trimExprs(m2)) {
		run.Violation("model-changed-by-round-trip", c, "M2 == M1 (condition expressions modulo surrounding whitespace)\n"+gen.PPModel(m1), "rendering:\n"+d1+"\nre-parsed:\n"+gen.PPModel(m2))
		return true
	}
	d2, err := transformer.TransformJSONProtoToDSL(m2)
	if err != nil {
		run.Violation("second-render-fails", c, "rendering succeeds", err.Error())
		return true
	}
	m3, err := transformer.TransformDSLToProto(d2)
	if err != nil {
		run.Violation("second-rendering-does-not-parse", c, "the rendering parses", d2+"\n"+err.Error())
		return true
	}
	if !parsedFinite(run, c, m3) {
		return true
	}
	d3, err := transformer.TransformJSONProtoToDSL(m3)
	if err != nil {
		run.Violation("third-render-fails", c, "rendering succeeds", err.Error())
		return true
	}
	if d3 != d2 {
		run.Violation("text-not-byte-stable", c, d2, d3)
		return true
	}
	// the text stays stable however often it is rendered (map iteration inside the printer must not leak)
	for k := 0; k < 4; k++ {
		dk, err := transformer.TransformJSONProtoToDSL(m3)
		if err != nil || dk != d2 {
			run.Violation("text-not-byte-stable", c, d2, dk+fmt.Sprint(err))
			return true
		}
	}
	if !proto.Equal(m2, m3) {
		run.Violation("model-not-stable", c, "M3 == M2", d2)
		return true
	}
	run.Eval(7)
	if d1 != d2 {
		run.Count("first_rendering_differs_from_second", 1)
	}
	if hasOperatorOrDirect(m1) {
		run.NonTrivial(modelKey(trimExprs(m1)))
	}
	return true
}

func runC01(run *core.Run) {
	run.Rule = "G2 generated model ASTs (all rewrite shapes, keywords as names, dotted/slashed/dashed identifiers, conditions, all parameter types) rendered in random grammar-permitted layouts, the repository's DSL corpus, and G4 token-level mutants of both that the parser accepts as full models; each goes through d->M1->D1->M2->D2->M3->D3 on the direct and the JSON path; non-trivial = accepted model with an operator, a direct assignment or a condition; distinct by deterministic serialisation of M1"
	corpus := gen.Corpus()
	for i, s := range corpus {
		if roundTrip(run, s, fmt.Sprintf("corpus[%d]", i)) {
			run.Count("corpus_files_in_domain", 1)
		}
	}
	nAst := run.N(6000, 120000)
	core.Parallel(nAst, func(i int) {
		r := run.Rng("c01-ast", i)
		g := &gen.DSLGen{R: r}
		if i%400 == 77 {
			g.ForceDeep = 40 + r.Intn(50)
			run.Count("documents_with_40_to_90_nested_groups", 1)
		}
		d := g.Doc(false)
		l := &gen.Layout{R: r, Wild: r.Intn(5) != 0, CRLF: r.Intn(4) == 0, Comments: r.Intn(2) == 0}
		if i%97 == 5 {
			l.Long = 66000
		}
		if i%10 == 3 {
			l.Mixed = true
		}
		txt := d.Render(l)
		if !roundTrip(run, txt, "G2") {
			run.Count("g2_texts_outside_domain", 1)
		}
		run.SampleAt(i, nAst/3+1, func() any { return txt })
	})
	nMut := run.N(40000, 800000)
	core.Parallel(nMut, func(i int) {
		r := run.Rng("c01-mut", i)
		var base string
		if r.Intn(3) == 0 {
			g := &gen.DSLGen{R: r}
			base = g.Doc(false).Render(&gen.Layout{R: r, Wild: r.Intn(2) == 0, Comments: true})
		} else {
			base = corpus[r.Intn(len(corpus))]
		}
		s := gen.Mutate(r, base)
		if roundTrip(run, s, "G4") {
			run.Count("accepted_mutants", 1)
			run.SampleAt(i, nMut/3+1, func() any { return s })
		}
	})
}

func replayC01(run *core.Run, c *core.Case) { roundTrip(run, c.DSL, "replay") }
