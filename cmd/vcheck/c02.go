package main

import (
	"fmt"
	pkgerrors "github.com/openfga/language/pkg/go/errors"
	"math/rand"
	"sort"
	"strings"

	openfgav1 "github.com/openfga/api/proto/openfga/v1"
	"github.com/openfga/language/pkg/go/transformer"
	"github.com/openfga/language/pkg/go/utils"
	"google.golang.org/protobuf/proto"

	"verif/internal/core"
	"verif/internal/gen"
)

// C02: JSON -> DSL succeeds exactly for DSL-expressible models and loses nothing.

func init() { register("C02", runC02, replayC02, 200) }

// ---- R2: expressibility predicate and normal form (written from the property statement) ----

func usKids(u *openfgav1.Userset) []*openfgav1.Userset {
	switch rw := u.GetUserset().(type) {
	case *openfgav1.Userset_Union:
		return rw.Union.GetChild()
	case *openfgav1.Userset_Intersection:
		return rw.Intersection.GetChild()
	case *openfgav1.Userset_Difference:
		return []*openfgav1.Userset{rw.Difference.GetBase(), rw.Difference.GetSubtract()}
	}
	return nil
}

func usIsThis(u *openfgav1.Userset) bool {
	_, ok := u.GetUserset().(*openfgav1.Userset_This)
	return ok
}

func usCountThis(u *openfgav1.Userset) int {
	if usIsThis(u) {
		return 1
	}
	n := 0
	for _, k := range usKids(u) {
		n += usCountThis(k)
	}
	return n
}

// canBeFirst: the direct assignment can be placed first, recursively from the root.
func canBeFirst(u *openfgav1.Userset) bool {
	if usIsThis(u) {
		return true
	}
	switch u.GetUserset().(type) {
	case *openfgav1.Userset_Difference:
		return canBeFirst(usKids(u)[0])
	case *openfgav1.Userset_Union, *openfgav1.Userset_Intersection:
		ks := usKids(u)
		if len(ks) == 0 {
			return false
		}
		for _, c := range ks {
			if usIsThis(c) {
				return true
			}
		}
		return canBeFirst(ks[0])
	}
	return false
}

func expressible(u *openfgav1.Userset) bool {
	c := usCountThis(u)
	return c == 0 || (c == 1 && canBeFirst(u))
}

func normalForm(u *openfgav1.Userset) *openfgav1.Userset {
	hoist := func(ch []*openfgav1.Userset) []*openfgav1.Userset {
		var out []*openfgav1.Userset
		for _, c := range ch {
			if usIsThis(c) {
				out = append(out, c)
			}
		}
		for _, c := range ch {
			if !usIsThis(c) {
				out = append(out, c)
			}
		}
		return out
	}
	switch rw := u.GetUserset().(type) {
	case *openfgav1.Userset_Union:
		var ch []*openfgav1.Userset
		for _, c := range rw.Union.GetChild() {
			ch = append(ch, normalForm(c))
		}
		if len(ch) == 1 {
			return ch[0]
		}
		return gen.Union(hoist(ch)...)
	case *openfgav1.Userset_Intersection:
		var ch []*openfgav1.Userset
		for _, c := range rw.Intersection.GetChild() {
			ch = append(ch, normalForm(c))
		}
		if len(ch) == 1 {
			return ch[0]
		}
		return gen.Inter(hoist(ch)...)
	case *openfgav1.Userset_Difference:
		return gen.Diff(normalForm(rw.Difference.GetBase()), normalForm(rw.Difference.GetSubtract()))
	case *openfgav1.Userset_This:
		return gen.This()
	}
	return u
}

// normalModel is what parsing the produced DSL must give back (DESIGN §7-c: attribution is metadata the
// model/schema syntax cannot carry; type order is compared as a set for modular inputs because the printer sorts).
func normalModel(m *openfgav1.AuthorizationModel) *openfgav1.AuthorizationModel {
	out := &openfgav1.AuthorizationModel{SchemaVersion: m.GetSchemaVersion(), Conditions: map[string]*openfgav1.Condition{}}
	for _, td := range m.GetTypeDefinitions() {
		nt := &openfgav1.TypeDefinition{Type: td.GetType(), Relations: map[string]*openfgav1.Userset{}}
		if len(td.GetRelations()) > 0 {
			nt.Metadata = &openfgav1.Metadata{Relations: map[string]*openfgav1.RelationMetadata{}}
		}
		for rn, us := range td.GetRelations() {
			nt.Relations[rn] = normalForm(us)
			md := &openfgav1.RelationMetadata{}
			if usCountThis(us) > 0 {
				for _, ref := range td.GetMetadata().GetRelations()[rn].GetDirectlyRelatedUserTypes() {
					md.DirectlyRelatedUserTypes = append(md.DirectlyRelatedUserTypes, proto.Clone(ref).(*openfgav1.RelationReference))
				}
			}
			nt.Metadata.Relations[rn] = md
		}
		out.TypeDefinitions = append(out.TypeDefinitions, nt)
	}
	for k, c := range m.GetConditions() {
		nc := &openfgav1.Condition{Name: c.GetName(), Expression: c.GetExpression(), Parameters: map[string]*openfgav1.ConditionParamTypeRef{}}
		for pn, p := range c.GetParameters() {
			np := &openfgav1.ConditionParamTypeRef{TypeName: p.GetTypeName()}
			for _, g := range p.GetGenericTypes() {
				np.GenericTypes = append(np.GenericTypes, &openfgav1.ConditionParamTypeRef{TypeName: g.GetTypeName()})
			}
			nc.Parameters[pn] = np
		}
		out.Conditions[k] = nc
	}
	return out
}

func sortedTypes(m *openfgav1.AuthorizationModel) *openfgav1.AuthorizationModel {
	c := proto.Clone(m).(*openfgav1.AuthorizationModel)
	sort.SliceStable(c.TypeDefinitions, func(i, j int) bool { return c.TypeDefinitions[i].GetType() < c.TypeDefinitions[j].GetType() })
	return c
}

// ---- monitor ----

func checkJSONToDSL(run *core.Run, m *openfgav1.AuthorizationModel, how string) {
	run.Guard(&core.Case{Kind: "model", Model: modelJSON(m), Extra: map[string]string{"how": how}}, func() { checkJSONToDSL1(run, m, how) })
}

func checkJSONToDSL1(run *core.Run, m *openfgav1.AuthorizationModel, how string) {
	c := &core.Case{Kind: "model", Model: modelJSON(m), Extra: map[string]string{"how": how}}
	// per-relation expectation
	var inexpressible []string
	modular := false
	for _, td := range m.GetTypeDefinitions() {
		if td.GetMetadata().GetModule() != "" {
			modular = true
		}
		for rn, us := range td.GetRelations() {
			if !expressible(us) {
				inexpressible = append(inexpressible, td.GetType()+"#"+rn)
			}
		}
	}
	sort.Strings(inexpressible)
	snap := proto.Clone(m).(*openfgav1.AuthorizationModel)
	dsl, err := transformer.TransformJSONProtoToDSL(m)
	run.Eval(1)
	if !proto.Equal(snap, m) {
		run.Count("sibling_C13_printer_modified_its_input", 1)
	}
	// JSON string path must behave the same
	dslS, errS := transformer.TransformJSONStringToDSL(c.Model)
	run.Eval(1)
	if (err == nil) != (errS == nil) || (err == nil && *dslS != dsl) {
		run.Violation("proto-and-json-string-paths-disagree", c, fmt.Sprintf("err=%v\n%s", err, dsl), fmt.Sprintf("err=%v", errS))
		return
	}
	if len(inexpressible) > 0 {
		run.Count("inexpressible_models", 1)
		if err == nil {
			run.Violation("inexpressible-model-rendered", c, "unsupported-nesting error for "+strings.Join(inexpressible, ", "), dsl)
			return
		}
		ok := false
		for _, k := range inexpressible {
			tn, rn, _ := strings.Cut(k, "#")
			// the library's own constructor of that error (exported): the wording is not part of the property
			if err.Error() == pkgerrors.UnsupportedDSLNestingError(tn, rn).Error() {
				ok = true
			}
		}
		if !ok {
			run.Violation("wrong-error-for-inexpressible-model", c, "the 'unsupported nesting' error naming one of "+strings.Join(inexpressible, ", "), err.Error())
		}
		run.NonTrivial(modelKey(m))
		return
	}
	run.Count("expressible_models", 1)
	if err != nil {
		run.Violation("expressible-model-rejected", c, "DSL", err.Error()+"\n"+gen.PPModel(m))
		return
	}
	back, perr := transformer.TransformDSLToProto(dsl)
	run.Eval(1)
	if perr != nil {
		run.Violation("produced-dsl-does-not-parse", c, "the produced DSL parses", dsl+"\n"+perr.Error())
		return
	}
	if !parsedFinite(run, c, back) {
		return
	}
	want := normalModel(m)
	got := normalModel(back) // brings absent/empty metadata of the parser's output to the same form
	if modular {
		want, got = sortedTypes(want), sortedTypes(got)
	}
	if !proto.Equal(want, got) {
		if hasCelComment(m) && proto.Equal(wsKeep(stripCelComments(want)), wsKeep(got)) {
			if _, ok := run.FindingListed("K3"); ok {
				run.Known("K3")
				return
			}
		}
		run.Violation("round-trip-loses-information", c, "normal form of the input:\n"+modelJSON(want), "DSL:\n"+dsl+"\nparsed back:\n"+modelJSON(got))
		return
	}
	// asking for source information only adds comments: that rendering parses too, and to the same model
	if modular {
		dslSrc, serr := transformer.TransformJSONProtoToDSL(m, transformer.WithIncludeSourceInformation(true))
		run.Eval(1)
		run.Count("renderings_with_source_information_parsed_back", 1)
		if serr != nil {
			run.Violation("expressible-model-rejected", c, "DSL with source information", serr.Error())
			return
		}
		if !attributionHasLineBreak(m) {
			backS, perr := transformer.TransformDSLToProto(dslSrc)
			if perr != nil {
				run.Violation("produced-dsl-does-not-parse", c, "the DSL produced with source information parses", dslSrc+"\n"+perr.Error())
				return
			}
			if !parsedFinite(run, c, backS) {
				return
			}
			if gotS := sortedTypes(normalModel(backS)); !proto.Equal(got, gotS) {
				run.Violation("round-trip-loses-information", c, "the rendering with source information parses to the same model:\n"+modelJSON(got), "DSL:\n"+dslSrc+"\nparsed back:\n"+modelJSON(gotS))
				return
			}
		}
	}
	// the re-parsed rewrite must itself be in normal form (nothing else was rearranged)
	for _, td := range back.GetTypeDefinitions() {
		for rn, us := range td.GetRelations() {
			if !proto.Equal(us, normalForm(us)) {
				run.Violation("parsed-rewrite-not-normal", c, "normal form", td.GetType()+"#"+rn)
			}
		}
	}
	// IsRelationAssignable <=> the relation's line carries a [..]
	for _, td := range m.GetTypeDefinitions() {
		for rn, us := range td.GetRelations() {
			line := ""
			inType := false
			for _, l := range strings.Split(dsl, "\n") {
				if strings.HasPrefix(l, "type ") {
					inType = l == "type "+td.GetType()
				}
				if inType && strings.HasPrefix(l, "    define "+rn+": ") {
					line = l
				}
			}
			if line == "" {
				run.Violation("relation-missing-from-output", c, "a define line for "+td.GetType()+"#"+rn, dsl)
				continue
			}
			if utils.IsRelationAssignable(us) != strings.Contains(line, "[") {
				run.Violation("IsRelationAssignable-disagrees-with-output", c, fmt.Sprint(utils.IsRelationAssignable(us)), line)
			}
			run.Eval(1)
		}
	}
	if len(m.GetTypeDefinitions()) > 0 {
		run.NonTrivial(modelKey(m))
	}
}

// wsKeep trims what stripping a trailing CEL comment leaves behind.
func wsKeep(m *openfgav1.AuthorizationModel) *openfgav1.AuthorizationModel {
	c := proto.Clone(m).(*openfgav1.AuthorizationModel)
	for _, cd := range c.GetConditions() {
		lines := strings.Split(strings.TrimSpace(cd.Expression), "\n")
		for i := range lines {
			lines[i] = strings.TrimRight(lines[i], " ")
		}
		cd.Expression = strings.Join(lines, "\n")
	}
	return c
}

// ---- workload ----

var c02Names = []string{"Viewer", "VIEWER", "Doc", "M", "user", "group", "doc", "viewer", "editor", "model", "type", "a.b", "a/b", "x-y", "relation", "schema", "m", "extend", "module", "_x", "b1", "a.b/c", "acme/user-group", "can.view-all", "a-b.c", "x_1-y/z.w", "t-1"}
var c02Idents = []string{"c1", "C1", "is_valid", "Is_Valid", "x-cond", "_c", "cond2", "non_expired", "C", "c", "c3", "c4", "k_1", "k-2"}
var c02ParamTypes = []openfgav1.ConditionParamTypeRef_TypeName{
	openfgav1.ConditionParamTypeRef_TYPE_NAME_BOOL, openfgav1.ConditionParamTypeRef_TYPE_NAME_STRING, openfgav1.ConditionParamTypeRef_TYPE_NAME_INT,
	openfgav1.ConditionParamTypeRef_TYPE_NAME_UINT, openfgav1.ConditionParamTypeRef_TYPE_NAME_DOUBLE, openfgav1.ConditionParamTypeRef_TYPE_NAME_DURATION,
	openfgav1.ConditionParamTypeRef_TYPE_NAME_TIMESTAMP, openfgav1.ConditionParamTypeRef_TYPE_NAME_IPADDRESS}

var exprPool = []string{
	"x < 10", "a == b && c != d", "x in [1, 2, 3]", "ip.in_cidr(cidr)", "t + d > now",
	"m[\"k\"] == 'v'", "!(a || b) ? c : d", "x > 1.5e3 && y <= 0x1F", "s.startsWith(\"a b\")",
	"a ==\n    b", "size(l) >= 1u", "-x * (y / z) - 1", "true || false || null == x",
	"b\"bytes\" == y", "r'raw' == y", "x == 1", "{\"a\": 1 == x", "x\n\n  && y", "x % 2 == 0", "\"\"\"multi\nline\"\"\" == s", "", "s == \"naïve ü 日本\"", "'😀' in l",
}
var exprAtoms = []string{"x", "y", "abc", "1", "2u", "0x1F", "1.5", "==", "!=", "<", "<=", ">", ">=", "&&", "||", "[", "]", "{", "(", ")", ".", "-", "!", "?", "+", "*", "/", "%", "true", "false", "null", "in", "\"s t\"", "'q'", ":", ",", "type", "define", "model", "with", "and", "or", "but not", "from"}

func randExpr(r *rand.Rand) string {
	if r.Intn(3) > 0 {
		return exprPool[r.Intn(len(exprPool))]
	}
	n := 1 + r.Intn(8)
	var sb strings.Builder
	for i := 0; i < n; i++ {
		if i > 0 {
			sb.WriteString([]string{" ", " ", "  ", "\n  ", "\t"}[r.Intn(5)])
		}
		sb.WriteString(exprAtoms[r.Intn(len(exprAtoms))])
	}
	return sb.String()
}

func c02Userset(r *rand.Rand, depth int) *openfgav1.Userset {
	k := r.Intn(12)
	if depth >= 3 && k >= 6 {
		k = r.Intn(6)
	}
	name := func() string { return c02Names[r.Intn(len(c02Names))] }
	kids := func() []*openfgav1.Userset {
		n := 1 + r.Intn(3)
		d := depth + 1
		if depth <= 1 && r.Intn(40) == 0 {
			// a wide operator: beyond the small-slice thresholds of the sort routines (12); leaves mostly
			n, d = 13+r.Intn(8), depth+3
		}
		var ch []*openfgav1.Userset
		for i := 0; i < n; i++ {
			ch = append(ch, c02Userset(r, d))
		}
		return ch
	}
	switch {
	case k < 2:
		return gen.This()
	case k < 4:
		return gen.Computed(name())
	case k < 6:
		return gen.TTU(name(), name())
	case k < 8:
		return gen.Union(kids()...)
	case k < 10:
		return gen.Inter(kids()...)
	default:
		return gen.Diff(c02Userset(r, depth+1), c02Userset(r, depth+1))
	}
}

func c02Model(r *rand.Rand) *openfgav1.AuthorizationModel {
	m := &openfgav1.AuthorizationModel{SchemaVersion: []string{"1.1", "1.2", "1.0"}[r.Intn(3)]}
	modular := r.Intn(4) == 0
	big := r.Intn(40) == 0 // beyond the small-slice thresholds of the sort routines (12) and of fast paths
	nc := 0
	if r.Intn(3) == 0 {
		nc = 1 + r.Intn(3)
	}
	if big {
		nc = 8 + r.Intn(3)
	}
	var conds []string
	if nc > 0 {
		m.Conditions = map[string]*openfgav1.Condition{}
	}
	for len(conds) < nc {
		cn := c02Idents[r.Intn(len(c02Idents))]
		if m.Conditions[cn] != nil {
			continue
		}
		conds = append(conds, cn)
		cd := &openfgav1.Condition{Name: cn, Expression: randExpr(r), Parameters: map[string]*openfgav1.ConditionParamTypeRef{}}
		np := 1 + r.Intn(3)
		if big {
			np = 14
		}
		for k := np; k > 0; k-- {
			p := &openfgav1.ConditionParamTypeRef{TypeName: c02ParamTypes[r.Intn(len(c02ParamTypes))]}
			if r.Intn(4) == 0 {
				p = &openfgav1.ConditionParamTypeRef{TypeName: []openfgav1.ConditionParamTypeRef_TypeName{openfgav1.ConditionParamTypeRef_TYPE_NAME_LIST, openfgav1.ConditionParamTypeRef_TYPE_NAME_MAP}[r.Intn(2)],
					GenericTypes: []*openfgav1.ConditionParamTypeRef{p}}
			}
			pnames := []string{"x", "X", "y", "param_1", "p-q", "model", "type", "l", "L", "a", "b", "c", "d", "e", "f", "g1", "h_2", "ip", "ip2", "ip-3", "p1", "p10", "p11", "p2"}
			cd.Parameters[pnames[r.Intn(len(pnames))]] = p
		}
		if modular && r.Intn(2) == 0 {
			cd.Metadata = &openfgav1.ConditionMetadata{Module: "mod" + fmt.Sprint(r.Intn(2)), SourceInfo: &openfgav1.SourceInfo{File: "f.fga"}}
		}
		m.Conditions[cn] = cd
	}
	nt := 1 + r.Intn(3)
	if big {
		nt = 13 + r.Intn(5)
	}
	seen := map[string]bool{}
	for len(m.TypeDefinitions) < nt {
		tn := c02Names[r.Intn(len(c02Names))]
		if seen[tn] {
			continue
		}
		seen[tn] = true
		td := &openfgav1.TypeDefinition{Type: tn}
		nr := r.Intn(4)
		if big && r.Intn(3) == 0 {
			nr = 13 + r.Intn(5)
		}
		if nr > 0 {
			td.Relations = map[string]*openfgav1.Userset{}
			if r.Intn(8) != 0 {
				td.Metadata = &openfgav1.Metadata{Relations: map[string]*openfgav1.RelationMetadata{}}
			}
		}
		if modular {
			if td.Metadata == nil {
				td.Metadata = &openfgav1.Metadata{}
			}
			td.Metadata.Module = "mod" + fmt.Sprint(r.Intn(3))
			td.Metadata.SourceInfo = &openfgav1.SourceInfo{File: fmt.Sprintf("f%d.fga", r.Intn(2))}
		}
		for k := 0; k < nr; k++ {
			rn := c02Names[r.Intn(len(c02Names))]
			us := c02Userset(r, 0)
			td.Relations[rn] = us
			nref := r.Intn(3)
			if usCountThis(us) > 0 && nref == 0 {
				nref = 1
			}
			if td.Metadata == nil && nref > 0 {
				td.Metadata = &openfgav1.Metadata{Relations: map[string]*openfgav1.RelationMetadata{}}
			}
			if td.Metadata != nil && usCountThis(us) == 0 && nref == 0 && r.Intn(3) == 0 {
				// API-style JSON: a relation without direct assignment has no metadata entry although the type has
				// metadata (module, other relations)
				continue
			}
			if td.Metadata != nil {
				if td.Metadata.Relations == nil {
					td.Metadata.Relations = map[string]*openfgav1.RelationMetadata{}
				}
				md := &openfgav1.RelationMetadata{}
				for q := 0; q < nref; q++ {
					ref := &openfgav1.RelationReference{Type: c02Names[r.Intn(len(c02Names))]}
					switch r.Intn(4) {
					case 0:
						ref.RelationOrWildcard = &openfgav1.RelationReference_Wildcard{Wildcard: &openfgav1.Wildcard{}}
					case 1:
						ref.RelationOrWildcard = &openfgav1.RelationReference_Relation{Relation: c02Names[r.Intn(len(c02Names))]}
					}
					if len(conds) > 0 && r.Intn(3) == 0 {
						ref.Condition = conds[r.Intn(len(conds))]
					}
					md.DirectlyRelatedUserTypes = append(md.DirectlyRelatedUserTypes, ref)
				}
				if modular && r.Intn(3) == 0 {
					md.Module = "ext"
					md.SourceInfo = &openfgav1.SourceInfo{File: "e.fga"}
				}
				td.Metadata.Relations[rn] = md
			}
		}
		m.TypeDefinitions = append(m.TypeDefinitions, td)
	}
	return m
}

// all rewrite trees with exactly n nodes over {this, x, y from p; union / intersection with 1-3 children; difference}
func treesOfSize(n int, memo map[int][]*openfgav1.Userset) []*openfgav1.Userset {
	if v, ok := memo[n]; ok {
		return v
	}
	var out []*openfgav1.Userset
	if n == 1 {
		out = []*openfgav1.Userset{gen.This(), gen.Computed("x"), gen.TTU("y", "p")}
	} else {
		var parts func(rem, k int, cur []int, f func([]int))
		parts = func(rem, k int, cur []int, f func([]int)) {
			if k == 0 {
				if rem == 0 {
					f(cur)
				}
				return
			}
			for s := 1; s <= rem-(k-1); s++ {
				parts(rem-s, k-1, append(append([]int{}, cur...), s), f)
			}
		}
		var prod func(sizes []int, i int, cur []*openfgav1.Userset, f func([]*openfgav1.Userset))
		prod = func(sizes []int, i int, cur []*openfgav1.Userset, f func([]*openfgav1.Userset)) {
			if i == len(sizes) {
				f(cur)
				return
			}
			for _, t := range treesOfSize(sizes[i], memo) {
				prod(sizes, i+1, append(append([]*openfgav1.Userset{}, cur...), t), f)
			}
		}
		for k := 1; k <= 3 && k <= n-1; k++ {
			parts(n-1, k, nil, func(sizes []int) {
				prod(sizes, 0, nil, func(ch []*openfgav1.Userset) {
					out = append(out, gen.Union(ch...), gen.Inter(ch...))
					if len(ch) == 2 {
						out = append(out, gen.Diff(ch[0], ch[1]))
					}
				})
			})
		}
	}
	memo[n] = out
	return out
}

func runC02(run *core.Run) {
	run.Rule = "random whole models (1-3 types, rewrite trees of any nesting with any number and position of direct assignments, 1-3 children so single-child operators occur, restrictions with wildcards/usersets/conditions, conditions with all 8 scalar and both container parameter types and expression text from a pool + random token soup, absent/empty/modular metadata) through TransformJSONProtoToDSL and TransformJSONStringToDSL: success <=> independent expressibility predicate, error text, and re-parse == normal form; plus every rewrite tree with <= N nodes over {this, x, y from p} (exhaustive); non-trivial = model with >=1 type; distinct by deterministic serialisation"
	if f, ok := run.FindingListed("K3"); ok {
		m := &openfgav1.AuthorizationModel{SchemaVersion: "1.1", Conditions: map[string]*openfgav1.Condition{"c": {Name: "c", Expression: "x > 1 // note",
			Parameters: map[string]*openfgav1.ConditionParamTypeRef{"x": {TypeName: openfgav1.ConditionParamTypeRef_TYPE_NAME_INT}}}}}
		checkJSONToDSL(run, m, "witness "+f.ID)
	}
	n := run.N(40000, 1000000)
	core.Parallel(n, func(i int) {
		r := run.Rng("c02", i)
		m := c02Model(r)
		if r.Intn(40) == 0 {
			for _, cd := range m.GetConditions() {
				cd.Expression = "x > 1 // note"
			}
		}
		checkJSONToDSL(run, m, "random")
		run.SampleAt(i, n/3+1, func() any { return gen.PPModel(m) })
	})
	// very wide rewrites: the produced DSL carries a single line longer than 64 KiB
	{
		var ch []*openfgav1.Userset
		for i := 0; i < 7000; i++ {
			ch = append(ch, gen.Computed(c02Names[i%len(c02Names)]))
		}
		var refs []*openfgav1.RelationReference
		for i := 0; i < 6000; i++ {
			refs = append(refs, gen.RefRel("group", c02Names[i%len(c02Names)]))
		}
		wide := &openfgav1.AuthorizationModel{SchemaVersion: "1.1", TypeDefinitions: []*openfgav1.TypeDefinition{
			{Type: "first"},
			{Type: "wide", Relations: map[string]*openfgav1.Userset{"u": gen.Union(ch...), "d": gen.This()},
				Metadata: &openfgav1.Metadata{Relations: map[string]*openfgav1.RelationMetadata{"d": {DirectlyRelatedUserTypes: refs}}}},
			{Type: "last", Relations: map[string]*openfgav1.Userset{"r": gen.Computed("r")}}},
			Conditions: map[string]*openfgav1.Condition{"c": {Name: "c", Expression: "x % 2 == 0", Parameters: map[string]*openfgav1.ConditionParamTypeRef{"x": {TypeName: openfgav1.ConditionParamTypeRef_TYPE_NAME_INT}}}}}
		checkJSONToDSL(run, wide, "very wide rewrite")
		run.Count("models_rendering_to_a_line_over_64KiB", 1)
	}
	maxNodes := 6
	if run.Tier == "thorough" {
		maxNodes = 7
	}
	memo := map[int][]*openfgav1.Userset{}
	total := 0
	for sz := 1; sz <= maxNodes; sz++ {
		ts := treesOfSize(sz, memo)
		total += len(ts)
		core.Parallel(len(ts), func(i int) {
			us := proto.Clone(ts[i]).(*openfgav1.Userset)
			md := &openfgav1.RelationMetadata{DirectlyRelatedUserTypes: []*openfgav1.RelationReference{{Type: "user"}}}
			m := &openfgav1.AuthorizationModel{SchemaVersion: "1.1", TypeDefinitions: []*openfgav1.TypeDefinition{{Type: "t", Relations: map[string]*openfgav1.Userset{"r": us},
				Metadata: &openfgav1.Metadata{Relations: map[string]*openfgav1.RelationMetadata{"r": md}}}}}
			checkJSONToDSL(run, m, "exhaustive tree")
		})
	}
	run.Count("exhaustive_rewrite_trees", int64(total))
	run.Count("exhaustive_max_nodes", int64(maxNodes))
}

func replayC02(run *core.Run, c *core.Case) {
	m, err := modelFromJSON(c.Model)
	if err != nil {
		fmt.Println("cannot load model:", err)
		return
	}
	checkJSONToDSL(run, m, "replay")
}
