package main

import (
	"bufio"
	"bytes"
	"encoding/json"
	"fmt"
	"os"
	"os/exec"
	"sort"
	"strings"

	openfgav1 "github.com/openfga/api/proto/openfga/v1"
	"github.com/openfga/language/pkg/go/graph"
	"google.golang.org/protobuf/proto"

	"verif/internal/core"
	"verif/internal/gen"
	"verif/internal/ref"
)

// C17: plain model graph - faithful, reversible, stable DOT, sound path queries.

func init() { register("C17", runC17, replayC17, 100) }

type pline struct {
	id       int64
	from, to int64
	e        *graph.AuthorizationModelEdge
}

type plainView struct {
	nodes map[int64]*graph.AuthorizationModelNode
	lines []pline
}

func viewPlain(g *graph.AuthorizationModelGraph) plainView {
	v := plainView{nodes: map[int64]*graph.AuthorizationModelNode{}}
	it := g.Nodes()
	for it.Next() {
		n, ok := it.Node().(*graph.AuthorizationModelNode)
		if ok {
			v.nodes[n.ID()] = n
		}
	}
	for id := range v.nodes {
		to := g.From(id)
		for to.Next() {
			ls := g.Lines(id, to.Node().ID())
			for ls.Next() {
				if l, ok := ls.Line().(*graph.AuthorizationModelEdge); ok {
					v.lines = append(v.lines, pline{l.ID(), id, to.Node().ID(), l})
				}
			}
		}
	}
	sort.Slice(v.lines, func(i, j int) bool {
		a, b := v.lines[i], v.lines[j]
		if a.from != b.from {
			return a.from < b.from
		}
		if a.to != b.to {
			return a.to < b.to
		}
		return a.id < b.id
	})
	return v
}

// names maps gonum node ids to reference node ids: non-operators by label, operators by creation order.
func (v plainView) names(R *ref.Graph) (map[int64]string, string) {
	name := map[int64]string{}
	var opIDs []int64
	for id, n := range v.nodes {
		if n.NodeType() == graph.OperatorNode {
			opIDs = append(opIDs, id)
		} else {
			name[id] = n.Label()
		}
	}
	sort.Slice(opIDs, func(i, j int) bool { return opIDs[i] < opIDs[j] })
	var refOps []string
	for _, id := range R.Order {
		if R.Nodes[id].IsOp() {
			refOps = append(refOps, id)
		}
	}
	if len(refOps) != len(opIDs) {
		return name, fmt.Sprintf("%d operator nodes, want %d", len(opIDs), len(refOps))
	}
	for i, id := range opIDs {
		name[id] = refOps[i]
		if v.nodes[id].Label() != R.Nodes[refOps[i]].Label() {
			return name, fmt.Sprintf("operator node #%d is %s, want %s (%s)", i, v.nodes[id].Label(), R.Nodes[refOps[i]].Label(), refOps[i])
		}
	}
	return name, ""
}

func (v plainView) canon(name map[int64]string, flipped bool) []string {
	var out []string
	for id, n := range v.nodes {
		out = append(out, fmt.Sprintf("N %s type=%d label=%s", name[id], n.NodeType(), n.Label()))
	}
	for _, l := range v.lines {
		from, to := l.from, l.to
		if flipped {
			from, to = to, from
		}
		out = append(out, fmt.Sprintf("E %s -> %s %s ts=%q", name[from], name[to], etNames[l.e.EdgeType()], l.e.TuplesetRelation()))
	}
	sort.Strings(out)
	return out
}

var etNames = map[graph.EdgeType]string{graph.DirectEdge: "direct", graph.RewriteEdge: "rewrite", graph.TTUEdge: "ttu", graph.ComputedEdge: "computed"}

// refPlainCanon: the reference structure with every edge flipped (drawn from user types towards relations).
func refPlainCanon(R *ref.Graph) []string {
	var out []string
	for id, n := range R.Nodes {
		out = append(out, fmt.Sprintf("N %s type=%d label=%s", id, refNodeType(n.Kind), n.Label()))
		for _, e := range n.Edges() {
			out = append(out, fmt.Sprintf("E %s -> %s %s ts=%q", e.To.ID, id, e.Type, e.Tupleset))
		}
	}
	sort.Strings(out)
	return out
}

func refNodeType(k ref.Kind) int {
	switch k {
	case ref.KType:
		return 0
	case ref.KRel:
		return 1
	case ref.KWild:
		return 3
	}
	return 2
}

func diffLines(a, b []string) string {
	ma := map[string]int{}
	for _, x := range a {
		ma[x]++
	}
	for _, x := range b {
		ma[x]--
	}
	var out []string
	for k, n := range ma {
		if n > 0 {
			out = append(out, fmt.Sprintf("  only in graph  (x%d): %s", n, k))
		} else if n < 0 {
			out = append(out, fmt.Sprintf("  only in reference (x%d): %s", -n, k))
		}
	}
	sort.Strings(out)
	if len(out) > 12 {
		out = out[:12]
	}
	return strings.Join(out, "\n")
}

func checkPlainGraph(run *core.Run, m *openfgav1.AuthorizationModel, rebuilds int) (dot string) {
	run.Guard(&core.Case{Kind: "model", Model: modelJSON(m)}, func() { dot = checkPlainGraph1(run, m, rebuilds) })
	return dot
}

func checkPlainGraph1(run *core.Run, m *openfgav1.AuthorizationModel, rebuilds int) string {
	c := &core.Case{Kind: "model", Model: modelJSON(m)}
	snap := proto.Clone(m).(*openfgav1.AuthorizationModel)
	g, err := graph.NewAuthorizationModelGraph(m)
	run.Eval(1)
	if err != nil || g == nil {
		run.Violation("plain-graph-build-fails", c, "a graph for every model", fmt.Sprint(err))
		return ""
	}
	if !proto.Equal(snap, m) {
		run.Count("sibling_C13_graph_builder_modified_model", 1)
	}
	R := ref.Build(m, true)
	if R.Invalid != "" {
		run.Count("models_outside_reference_domain", 1)
		return ""
	}
	pp := gen.PPModel(m)
	// 1. structure
	v := viewPlain(g)
	name, why := v.names(R)
	if why != "" {
		run.Violation("structure-differs", c, "operator nodes of the reference graph", why+"\n"+pp)
		return ""
	}
	if len(v.nodes) != len(R.Nodes) {
		run.Violation("structure-differs", c, fmt.Sprintf("%d nodes", len(R.Nodes)), fmt.Sprintf("%d nodes\n%s", len(v.nodes), pp))
		return ""
	}
	if a, b := v.canon(name, false), refPlainCanon(R); strings.Join(a, "\n") != strings.Join(b, "\n") {
		run.Violation("structure-differs", c, "nodes and typed edges of the reference graph, drawn from user types towards relations", diffLines(a, b)+"\n"+pp)
		return ""
	}
	if g.GetDrawingDirection() != graph.DrawingDirectionListObjects {
		run.Violation("drawing-direction", c, "list-objects direction", "check direction")
	}
	// 2. reversal
	rev, err := g.Reversed()
	if err != nil {
		run.Violation("reversed-fails", c, "a reversed graph", err.Error())
		return ""
	}
	rv := viewPlain(rev)
	if a, b := rv.canon(name, true), v.canon(name, false); strings.Join(a, "\n") != strings.Join(b, "\n") || len(rv.nodes) != len(v.nodes) {
		run.Violation("reversal-changes-more-than-direction", c, "every line flipped and nothing else", diffLines(a, b)+"\n"+pp)
	}
	if rev.GetDrawingDirection() == g.GetDrawingDirection() {
		run.Violation("reversal-keeps-drawing-direction", c, "direction flipped", "same direction")
	}
	dot := g.GetDOT()
	if again := g.GetDOT(); again != dot {
		run.Violation("dot-differs-between-calls-on-one-graph", c, dot, again)
	}
	rr, err := rev.Reversed()
	if err != nil {
		run.Violation("reversed-fails", c, "a reversed graph", err.Error())
		return ""
	}
	if d := rr.GetDOT(); d != dot {
		run.Violation("double-reversal-changes-dot", c, dot, d)
	}
	if dot == "" || !strings.Contains(dot, "rankdir") {
		run.Violation("dot-empty", c, "a DOT text", dot)
	}
	if strings.Contains(rev.GetDOT(), "rankdir=BT") == strings.Contains(dot, "rankdir=BT") {
		run.Violation("reversal-keeps-rankdir", c, "rankdir flipped", rev.GetDOT())
	}
	// 3. DOT across rebuilds
	for k := 0; k < rebuilds; k++ {
		g2, err := graph.NewAuthorizationModelGraph(proto.Clone(m).(*openfgav1.AuthorizationModel))
		run.Eval(1)
		if err != nil || g2.GetDOT() != dot {
			run.Violation("dot-differs-between-builds", c, dot, fmt.Sprint(err))
			break
		}
	}
	// 4. label lookup
	var labels []string
	for _, id := range R.Order {
		n := R.Nodes[id]
		if n.IsOp() {
			continue
		}
		labels = append(labels, id)
		nd, err := g.GetNodeByLabel(id)
		run.Eval(1)
		if err != nil || nd == nil {
			run.Violation("label-not-found", c, "node "+id, fmt.Sprint(err))
			continue
		}
		if int(nd.NodeType()) != refNodeType(n.Kind) || nd.Label() != id {
			run.Violation("label-lookup-wrong-node", c, fmt.Sprintf("%s type %d", id, refNodeType(n.Kind)), fmt.Sprintf("%s type %d", nd.Label(), nd.NodeType()))
		}
		if rn, err := rev.GetNodeByLabel(id); err != nil || rn.Label() != id {
			run.Violation("label-not-found-in-reversed-graph", c, "node "+id, fmt.Sprint(err))
		}
	}
	bogus := []string{"", "nosuch", "union", "intersection", "exclusion", "nosuch#r", "nosuch:*"}
	for _, td := range m.GetTypeDefinitions() {
		bogus = append(bogus, td.GetType()+"#nosuch_relation", td.GetType()+" ")
		if _, ok := R.Nodes[td.GetType()+":*"]; !ok {
			bogus = append(bogus, td.GetType()+":*")
		}
	}
	for _, b := range bogus {
		if _, ok := R.Nodes[b]; ok {
			continue
		}
		nd, err := g.GetNodeByLabel(b)
		run.Eval(1)
		if err == nil || nd != nil {
			run.Violation("lookup-finds-a-label-that-is-no-node", c, "ErrQueryingGraph for "+b, fmt.Sprintf("%v", nd))
		}
		if ok, err := g.PathExists(b, b); err == nil || ok {
			run.Violation("path-query-on-unknown-label", c, "false and an error", fmt.Sprint(ok, err))
		}
	}
	// 5. path queries: duality, and agreement with reachability in the reference graph
	reach := map[string]map[string]bool{}
	for _, a := range labels {
		seen := map[string]bool{}
		var dfs func(n *ref.Node)
		dfs = func(n *ref.Node) {
			if seen[n.ID] {
				return
			}
			seen[n.ID] = true
			for _, e := range n.Edges() {
				dfs(e.To)
			}
		}
		dfs(R.Nodes[a])
		reach[a] = seen
	}
	if len(labels) <= 40 {
		for _, a := range labels {
			for _, b := range labels {
				p1, e1 := g.PathExists(a, b)
				p2, e2 := rev.PathExists(b, a)
				run.Eval(2)
				if e1 != nil || e2 != nil {
					run.Violation("path-query-error", c, "no error for existing labels", fmt.Sprint(e1, e2))
					continue
				}
				if p1 != p2 {
					run.Violation("path-duality", c, fmt.Sprintf("PathExists(%s,%s)=%v in g", a, b, p1), fmt.Sprintf("PathExists(%s,%s)=%v in reversed\n%s", b, a, p2, pp))
				}
				// g is drawn from user types towards relations: a path a -> b in g is a path b -> a in the reference
				if p1 != reach[b][a] {
					run.Violation("path-query-disagrees-with-reference", c, fmt.Sprintf("%s reaches %s: %v", a, b, reach[b][a]), fmt.Sprintf("%v\n%s", p1, pp))
				}
			}
		}
		run.Count("label_pairs_queried", int64(len(labels)*len(labels)))
	}
	// 6. cycles (gonum enumerates elementary cycles: only small cyclic parts)
	cyc := R.Cyclic(func(*ref.Edge) bool { return true }, func(*ref.Node) bool { return true })
	if len(cyc) <= 12 {
		ct, rt := g.GetCycles().VerifFlags()
		run.Eval(1)
		run.Count("cycle_queries", 1)
		// "reversing flips every edge and the direction and nothing else": a cycle reversed is the same cycle
		if rev != nil {
			rct, rrt := rev.GetCycles().VerifFlags()
			run.Eval(1)
			if rct != ct || rrt != rt {
				run.Violation("cycle-flags-change-under-reversal", c, fmt.Sprintf("compileTime=%v runtime=%v as on the graph itself", ct, rt), fmt.Sprintf("reversed graph: compileTime=%v runtime=%v\n%s", rct, rrt, pp))
			}
		}
		// pure computed cycle among >= 2 relations
		comp := R.SCCs(func(e *ref.Edge) bool { return e.Type == "computed" }, func(n *ref.Node) bool { return n.Kind == ref.KRel })
		size := map[int]int{}
		for _, k := range comp {
			size[k]++
		}
		pure2 := false
		for _, k := range size {
			if k >= 2 {
				pure2 = true // two or more relations on a cycle of pure computed usersets
			}
		}
		if pure2 {
			run.Count("models_with_pure_computed_cycle", 1)
			if !ct {
				run.Violation("pure-computed-cycle-not-reported", c, "compile-time cycle", pp)
			}
		}
		// converse: a reported compile-time cycle needs a cycle made of computed usersets only; a reported runtime cycle
		// needs a cycle containing at least one line that is no computed userset
		if ct || rt {
			all := R.SCCs(func(*ref.Edge) bool { return true }, func(*ref.Node) bool { return true })
			allSize := map[int]int{}
			for _, k := range all {
				allSize[k]++
			}
			pureLoop, mixed := false, false
			for _, n := range R.Nodes {
				for _, e := range n.Edges() {
					if e.To == n && e.Type == "computed" {
						pureLoop = true
					}
					if e.Type != "computed" && all[n] == all[e.To] && (allSize[all[n]] >= 2 || e.To == n) {
						mixed = true
					}
				}
			}
			if ct && !pure2 && !pureLoop {
				run.Violation("compile-time-cycle-reported-without-a-pure-computed-cycle", c, "compile-time flag only for a cycle of computed usersets", fmt.Sprintf("compileTime=%v runtime=%v\n%s", ct, rt, pp))
			}
			if rt && !mixed {
				run.Violation("runtime-cycle-reported-without-a-cycle-through-a-tuple-or-operator", c, "runtime flag only for a cycle with a line that is no computed userset", fmt.Sprintf("compileTime=%v runtime=%v\n%s", ct, rt, pp))
			}
			run.Count("cycle_flag_converse_checks", 1)
		}
		if len(cyc) == 0 {
			run.Count("acyclic_models", 1)
			if ct || rt {
				run.Violation("cycle-reported-on-acyclic-model", c, "no cycle", fmt.Sprintf("compileTime=%v runtime=%v\n%s", ct, rt, pp))
			}
		}
	}
	if countOps(R) > 0 || len(cyc) > 0 {
		run.NonTrivial(pp)
	}
	return dot
}

func runC17(run *core.Run) {
	run.Rule = "G1 random models (any rewrite shape, conditions, wildcards, extra bias towards cycles of pure computed relations); plain graph compared with the reference structure in plain mode with every edge flipped (node set, node types, labels, edge multiset with kinds and tupleset labels; operator nodes matched through gonum node ids); Reversed() must flip every line and the direction only; DOT of rev(rev g) == DOT of g; DOT equal across rebuilds in process and across two fresh processes; label lookup for every type/relation/wildcard label and for labels that are none; PathExists duality and agreement with reference reachability for all label pairs; cycle flags through the VerifFlags hook; non-trivial = model with >=1 operator node or a cycle; distinct by model text"
	n := run.N(16000, 300000)
	var models []string
	var dots []string
	type rec struct {
		i   int
		m   string
		dot string
	}
	ch := make(chan rec, 1024)
	done := make(chan struct{})
	crossEvery := n / run.N(400, 4000)
	go func() {
		byIdx := map[int]rec{}
		for r := range ch {
			byIdx[r.i] = r
		}
		var idx []int
		for i := range byIdx {
			idx = append(idx, i)
		}
		sort.Ints(idx)
		for _, i := range idx {
			models = append(models, byIdx[i].m)
			dots = append(dots, byIdx[i].dot)
		}
		close(done)
	}()
	for _, wm := range witnessPlainModels() {
		checkPlainGraph(run, wm, 3)
	}
	core.Parallel(n, func(i int) {
		r := run.Rng("c17", i)
		opt := gen.ModelOpt{Conditions: r.Intn(2) == 0, Wildcards: 2, PureCycles: true, Hazards: r.Intn(3) == 0}
		if i%9 == 4 {
			opt.MaxObj, opt.MaxRel = 3, 7
		}
		m := gen.Model(r, opt)
		dot := checkPlainGraph(run, m, run.N(2, 5))
		if dot != "" && i%crossEvery == 0 {
			ch <- rec{i, modelJSON(m), dot}
		}
		run.SampleAt(i, n/3+1, func() any { return gen.PPModel(m) })
	})
	close(ch)
	<-done
	// DOT across two fresh processes
	crossProcessDOT(run, models, dots)
}

// witnessPlainModels: parallel lines between the same two nodes (direct + TTU), the F11 witness.
func witnessPlainModels() []*openfgav1.AuthorizationModel {
	td := &openfgav1.TypeDefinition{Type: "doc", Relations: map[string]*openfgav1.Userset{
		"parent": gen.This(), "viewer": gen.Union(gen.This(), gen.TTU("viewer", "parent"))},
		Metadata: &openfgav1.Metadata{Relations: map[string]*openfgav1.RelationMetadata{
			"parent": {DirectlyRelatedUserTypes: []*openfgav1.RelationReference{gen.RefType("doc")}},
			"viewer": {DirectlyRelatedUserTypes: []*openfgav1.RelationReference{gen.RefType("user"), gen.RefRel("doc", "viewer")}}}}}
	// graphs without a single line: no types at all, types only, a relation whose direct assignment names nobody
	lonely := &openfgav1.TypeDefinition{Type: "doc", Relations: map[string]*openfgav1.Userset{"viewer": gen.This()},
		Metadata: &openfgav1.Metadata{Relations: map[string]*openfgav1.RelationMetadata{"viewer": {}}}}
	return []*openfgav1.AuthorizationModel{{SchemaVersion: "1.1", TypeDefinitions: []*openfgav1.TypeDefinition{{Type: "user"}, td}},
		{SchemaVersion: "1.1"},
		{SchemaVersion: "1.1", TypeDefinitions: []*openfgav1.TypeDefinition{{Type: "user"}}},
		{SchemaVersion: "1.1", TypeDefinitions: []*openfgav1.TypeDefinition{{Type: "user"}, {Type: "group"}, {Type: "union"}}},
		{SchemaVersion: "1.1", TypeDefinitions: []*openfgav1.TypeDefinition{{Type: "user"}, lonely}}}
}

func dotWorker() {
	sc := bufio.NewScanner(os.Stdin)
	sc.Buffer(make([]byte, 1<<24), 1<<24)
	for sc.Scan() {
		var s string
		if json.Unmarshal(sc.Bytes(), &s) != nil {
			fmt.Println("ERR")
			continue
		}
		m, err := modelFromJSON(s)
		if err != nil {
			fmt.Println("ERR")
			continue
		}
		g, err := graph.NewAuthorizationModelGraph(m)
		if err != nil {
			fmt.Println("ERR")
			continue
		}
		fmt.Printf("%016x\n", core.Hash(g.GetDOT()))
	}
}

func crossProcessDOT(run *core.Run, models, dots []string) {
	if len(models) == 0 {
		return
	}
	exe, err := os.Executable()
	if err != nil {
		run.Inconclusive("cannot find own executable: %v", err)
		return
	}
	var in bytes.Buffer
	for _, m := range models {
		b, _ := json.Marshal(m)
		in.Write(b)
		in.WriteByte('\n')
	}
	for p := 0; p < 2; p++ {
		cmd := exec.Command(exe, "-worker", "dot")
		cmd.Stdin = bytes.NewReader(in.Bytes())
		out, err := cmd.Output()
		if err != nil {
			run.Inconclusive("dot worker failed: %v", err)
			return
		}
		lines := strings.Split(strings.TrimSpace(string(out)), "\n")
		if len(lines) != len(models) {
			run.Inconclusive("dot worker answered %d lines for %d models", len(lines), len(models))
			return
		}
		for i, l := range lines {
			run.Eval(1)
			if l != fmt.Sprintf("%016x", core.Hash(dots[i])) {
				run.Violation("dot-differs-between-processes", &core.Case{Kind: "model", Model: models[i]}, dots[i], "hash "+l+" in a fresh process")
				break
			}
		}
		run.Count("dot_compared_with_fresh_process", int64(len(lines)))
	}
}

func replayC17(run *core.Run, c *core.Case) {
	m, err := modelFromJSON(c.Model)
	if err != nil {
		fmt.Println("cannot load model:", err)
		return
	}
	dot := checkPlainGraph(run, m, 6)
	if dot != "" {
		crossProcessDOT(run, []string{c.Model}, []string{dot})
	}
}
