package main

import (
	"fmt"
	"math/rand"
	"strconv"
	"strings"

	openfgav1 "github.com/openfga/api/proto/openfga/v1"
	"google.golang.org/protobuf/proto"

	"verif/internal/core"
	"verif/internal/gen"
)

// Deterministic input streams of C08: input #idx of a stream is a function of (seed, stream, idx) only, so
// that the parent process can regenerate the input a crashed child was working on from the index it logged.

type c08Input struct {
	Stream string
	Idx    int
	Text   string                        // dsl / yaml / json / string
	Files  []core.File                   // modfiles
	Model  *openfgav1.AuthorizationModel // models
	Notes  []string
}

var (
	c08CorpusCache []string
	c08ModCache    []string
)

func c08Corpus() []string {
	if c08CorpusCache == nil {
		c08CorpusCache = gen.Corpus()
	}
	return c08CorpusCache
}

func c08ModCorpus() []string {
	if c08ModCache == nil {
		c08ModCache = append(gen.ModCorpus(), "schema: '1.2'\ncontents:\n  - a.fga\n  - b/c.fga\n", "schema: \"1.2\"\ncontents: [a.fga, 'b.fga']\n")
	}
	return c08ModCache
}

var yamlTokens = []string{"schema", "contents", ":", "- ", "\n", "  ", "'1.2'", "1.2", "\"", "'", "[", "]", "{", "}", ",", "&a ", "*a", "!!str ", "!!int ", "|", ">", "|-\n  ", "#", "%", "%2e", "../", "\\", ".fga", "---\n", "...\n", "? ", "<<: ", "~", "null", "\t", "\r\n", "\x00", "é", "!", "@", "`", "a.fga"}

var jsonTokens = []string{"{", "}", "[", "]", ":", ",", "\"", "\\", "null", "true", "1", "-1", "1e999", "\"this\"", "\"union\"", "\"child\"", "\"type_definitions\"", "\"relations\"", "\"metadata\"", "\"conditions\"", "\"schema_version\"", "\"typeName\"", "\"TYPE_NAME_LIST\"", "\"generic_types\"", "\"wildcard\"", "\"difference\"", "\"base\"", "\"subtract\"", "\"tupleToUserset\"", "\"computedUserset\"", "\"directly_related_user_types\"", " ", "\n", "é", "\\u0000", "{}", "[]", "\"\""}

func mutateWith(r *rand.Rand, s string, toks []string) string {
	n := 1 + r.Intn(4)
	for i := 0; i < n; i++ {
		if len(s) == 0 {
			s = toks[r.Intn(len(toks))]
			continue
		}
		p := r.Intn(len(s) + 1)
		switch r.Intn(5) {
		case 0, 1:
			s = s[:p] + toks[r.Intn(len(toks))] + s[p:]
		case 2:
			q := p + r.Intn(12)
			if q > len(s) {
				q = len(s)
			}
			s = s[:p] + s[q:]
		case 3:
			s = s[:p]
		case 4:
			q := p + 1 + r.Intn(30)
			if q > len(s) {
				q = len(s)
			}
			at := r.Intn(len(s) + 1)
			s = s[:at] + s[p:q] + s[at:]
		}
	}
	return s
}

func makeC08Input(seed int64, stream string, idx int) c08Input {
	r := rand.New(rand.NewSource(int64(core.Hash(fmt.Sprintf("%d/c08/%s/%d", seed, stream, idx)))))
	in := c08Input{Stream: stream, Idx: idx}
	corpus := c08Corpus()
	dslMutant := func() string {
		var base string
		switch r.Intn(4) {
		case 0:
			g := &gen.DSLGen{R: r}
			base = g.Doc(r.Intn(3) == 0).Render(&gen.Layout{R: r, Wild: r.Intn(2) == 0, Comments: true, CRLF: r.Intn(6) == 0})
		default:
			base = corpus[r.Intn(len(corpus))]
		}
		if r.Intn(12) == 0 {
			return base
		}
		s := gen.Mutate(r, base)
		if r.Intn(6) == 0 {
			s = gen.Mutate(r, s)
		}
		return s
	}
	switch stream {
	case "dsl":
		in.Text = dslMutant()
	case "modfiles":
		n := 1 + r.Intn(3)
		for k := 0; k < n; k++ {
			var txt string
			switch r.Intn(3) {
			case 0:
				txt = dslMutant()
			default:
				g := &gen.DSLGen{R: r}
				txt = g.Doc(r.Intn(5) != 0).Render(&gen.Layout{R: r, Wild: r.Intn(2) == 0})
				if r.Intn(2) == 0 {
					txt = gen.Mutate(r, txt)
				}
			}
			in.Files = append(in.Files, core.File{Name: fmt.Sprintf("f%d.fga", k%2), Contents: txt})
		}
	case "mergesets":
		// cooperating module files: G3 sets with injected conflicts under layouts hostile to textual lookups
		for _, f := range genFileSet(r, mergeGenOpt{Conflicts: r.Intn(3), HostileText: true, ForceExtends: r.Intn(2) == 0}) {
			in.Files = append(in.Files, core.File{Name: f.Name, Contents: f.Txt})
		}
	case "yaml":
		mc := c08ModCorpus()
		in.Text = mutateWith(r, mc[r.Intn(len(mc))], yamlTokens)
		if r.Intn(8) == 0 {
			in.Text = dslMutant()
		}
		if r.Intn(3) == 0 {
			// well-formed manifests whose entries are very short strings over everything a path check looks at
			// (separators, drive designators, escapes, dots): hand-written index arithmetic fails on the shortest ones
			pieces := []string{":", "/", "\\", ".", "..", "%", "%3A", "%2F", "%5C", "%2e", "%", "+", " ", "c", "C", "a", "~", "$", "*", "?", "#", "é", "\x00", ".fga", ".FGA", "fga", "-", "|", ">", "&", "!", "'", "\""}
			var sb strings.Builder
			sb.WriteString([]string{"schema: '1.2'\n", "schema: \"1.2\"\n", "schema: 1.2\n", ""}[r.Intn(4)])
			if r.Intn(15) == 0 {
				sb.WriteString("contents: &c [*c]\n")
				in.Text = sb.String()
				break
			}
			sb.WriteString("contents:\n")
			for k := 1 + r.Intn(4); k > 0; k-- {
				e := ""
				for q := r.Intn(5); q > 0; q-- {
					e += pieces[r.Intn(len(pieces))]
				}
				switch r.Intn(3) {
				case 0:
					sb.WriteString("  - " + strconv.Quote(e) + "\n")
				case 1:
					sb.WriteString("  - '" + strings.ReplaceAll(strings.ReplaceAll(e, "'", "''"), "\x00", "") + "'\n")
				default:
					sb.WriteString("  - " + e + "\n") // plain: whatever YAML makes of it
				}
				if r.Intn(12) == 0 {
					// an anchored collection that contains an alias of itself: a cyclic node graph
					sb.WriteString([]string{"  - &s [x.fga, *s]\n", "  - &m {k: *m}\n", "  - &q\n    - *q\n"}[r.Intn(3)])
				}
			}
			in.Text = sb.String()
		}
	case "json":
		m := c02Model(r)
		in.Text = modelJSON(m)
		if r.Intn(10) != 0 {
			in.Text = mutateWith(r, in.Text, jsonTokens)
		}
	case "models":
		var m *openfgav1.AuthorizationModel
		switch r.Intn(4) {
		case 0:
			m = c02Model(r)
		case 1:
			m = c14Model(r)
		case 2:
			// no uniqueness constraint: identical direct assignments / tuple-to-usersets under one operator
			m = gen.Model(r, gen.ModelOpt{Conditions: true, Hazards: true, Wildcards: 2, FreeThis: true, MaxRel: 3})
		default:
			m = gen.Model(r, gen.ModelOpt{Conditions: true, Hazards: true, Wildcards: 2})
		}
		m = proto.Clone(m).(*openfgav1.AuthorizationModel)
		if r.Intn(10) != 0 {
			in.Notes = gen.Degenerate(r, m)
		}
		if r.Intn(400) == 0 {
			m = nil
			in.Notes = append(in.Notes, "nil model")
		}
		in.Model = m
	case "strings":
		pool := []rune{':', '#', '@', '*', ' ', '\t', '\n', 'a', 'Z', '0', '_', '|', '.', '+', '-', '/', 'é', 0, '\\', 0xFFFD, '😀'}
		var sb strings.Builder
		for k := r.Intn(300); k > 0; k-- {
			sb.WriteRune(pool[r.Intn(len(pool))])
		}
		in.Text = sb.String()
		if r.Intn(5) == 0 {
			in.Text = string([]byte{0xff, 0xfe, ':', 0x80}) + in.Text
		}
	}
	return in
}

func (in c08Input) toCase() *core.Case {
	c := &core.Case{Kind: "c08:" + in.Stream, Extra: map[string]string{"stream": in.Stream, "idx": fmt.Sprint(in.Idx)}}
	switch in.Stream {
	case "modfiles", "mergesets":
		c.Files = in.Files
	case "models":
		c.Text = fmt.Sprintf("degenerations: %v\n%s", in.Notes, safePP(in.Model))
	default:
		c.Text = in.Text
	}
	return c
}

func safePP(m *openfgav1.AuthorizationModel) (s string) {
	defer func() {
		if r := recover(); r != nil {
			s = fmt.Sprintf("(model cannot be printed: %v)", r)
		}
	}()
	if m == nil {
		return "<nil model>"
	}
	return m.String()
}
