package main

import (
	"fmt"
	"os"
	"path/filepath"
	"regexp"
	"strings"
	"sync"
	"unicode/utf8"

	v "github.com/openfga/language/pkg/go/validation"

	"verif/internal/core"
	"verif/internal/gen"
)

// C18: tuple-field validators accept only unambiguously decomposable strings.

func init() { register("C18", runC18, replayC18, 200) }

func isWS(s string) bool { return strings.ContainsAny(s, " \t\n\r\f") }

type valResult struct {
	obj, uobj, us, wc, user, ty, rel, id, cond bool
}

// Each validator call compiles its regular expression (~0.25 ms): results are memoised per string so that the
// part checks (type / id / relation of a decomposed string) do not repeat the work. The functions are pure.
var valCache [64]struct {
	mu sync.Mutex
	m  map[string]valResult
}

func validateAll(s string) valResult {
	sh := &valCache[core.Hash(s)%64]
	sh.mu.Lock()
	if r, ok := sh.m[s]; ok {
		sh.mu.Unlock()
		return r
	}
	sh.mu.Unlock()
	r := validateAllUncached(s)
	sh.mu.Lock()
	if sh.m == nil {
		sh.m = map[string]valResult{}
	}
	sh.m[s] = r
	sh.mu.Unlock()
	return r
}

func vType(s string) bool     { return validateAll(s).ty }
func vID(s string) bool       { return validateAll(s).id }
func vRelation(s string) bool { return validateAll(s).rel }

func validateAllUncached(s string) valResult {
	return valResult{v.ValidateObject(s), v.ValidateUserObject(s), v.ValidateUserSet(s), v.ValidateUserWildcard(s), v.ValidateUser(s),
		v.ValidateType(s), v.ValidateRelation(s), v.ValidateObjectID(s), v.ValidateRelationshipCondition(s)}
}

// R5: decomposition predicate, written from the property text (not from the regular expressions).
func refType(s string) bool {
	n := utf8.RuneCountInString(s)
	return n >= 1 && n <= 254 && !isWS(s) && !strings.ContainsAny(s, ":#@*")
}
func refRelation(s string) bool {
	n := utf8.RuneCountInString(s)
	return n >= 1 && n <= 50 && !isWS(s) && !strings.ContainsAny(s, ":#@*")
}

func checkValidators(run *core.Run, s string) {
	run.Guard(&core.Case{Kind: "string", Text: s}, func() { checkValidators1(run, s) })
}

func checkValidators1(run *core.Run, s string) {
	c := &core.Case{Kind: "string", Text: s}
	r := validateAll(s)
	run.Eval(9)
	bad := func(class, exp string) {
		run.Violation(class, c, exp, fmt.Sprintf("%q -> %+v", s, r))
	}
	if r.uobj != r.obj {
		bad("ValidateUserObject-differs-from-ValidateObject", "equal answers")
	}
	if r.obj {
		if strings.Count(s, ":") != 1 {
			bad("object-without-exactly-one-colon", "exactly one ':'")
		} else {
			t, i, _ := strings.Cut(s, ":")
			if !vType(t) || !vID(i) {
				bad("object-parts-not-accepted", "type and id accepted separately")
			}
		}
		if n := utf8.RuneCountInString(s); n < 2 || n > 256 {
			bad("object-length-limit", "2..256")
		}
	}
	if r.us {
		if strings.Count(s, ":") != 1 || strings.Count(s, "#") != 1 {
			bad("userset-counts", "exactly one ':' and one '#'")
		} else {
			o, rel, _ := strings.Cut(s, "#")
			t, i, _ := strings.Cut(o, ":")
			if !vType(t) || !vID(i) || !vRelation(rel) {
				bad("userset-parts-not-accepted", "type, id and relation accepted separately")
			}
		}
	}
	if r.wc {
		if !strings.HasSuffix(s, ":*") || !vType(strings.TrimSuffix(s, ":*")) {
			bad("wildcard-not-type-colon-star", "type:*")
		}
	}
	n := 0
	for _, b := range []bool{r.obj, r.us, r.wc} {
		if b {
			n++
		}
	}
	if r.user != (n >= 1) || n > 1 {
		bad("user-not-exactly-one-of-three", "ValidateUser <=> exactly one of userset, object, wildcard")
	}
	if (r.ty || r.rel || r.id) && isWS(s) {
		bad("whitespace-accepted", "no whitespace in type, relation, id")
	}
	if (r.ty || r.rel) && strings.ContainsAny(s, ":#@*") {
		bad("separator-accepted-in-type-or-relation", "no : # @ * in type or relation")
	}
	if r.cond && utf8.RuneCountInString(s) > 50 {
		bad("condition-length-limit", "<= 50")
	}
	if r.ty != refType(s) && !hasOtherSpace(s) {
		bad("type-differs-from-rule", fmt.Sprint(refType(s)))
	}
	if r.rel != refRelation(s) && !hasOtherSpace(s) {
		bad("relation-differs-from-rule", fmt.Sprint(refRelation(s)))
	}
	// the validators of the single fields implement the shared rule strings (which are compared with the JS and
	// Java sources): evaluated here directly from the constants of the running package
	for _, rc := range []struct {
		name string
		re   *regexp.Regexp
		got  bool
	}{{"id", ruleRe(string(v.RuleID)), r.id}, {"condition", ruleRe(string(v.RuleCondition)), r.cond}, {"type", ruleRe(string(v.RuleType)), r.ty}, {"relation", ruleRe(string(v.RuleRelation)), r.rel}} {
		if rc.re != nil && utf8.ValidString(s) && rc.re.MatchString(s) != rc.got {
			bad("validator-differs-from-its-rule-string:"+rc.name, fmt.Sprintf("%v (rule %s)", !rc.got, rc.re))
		}
	}
	// completeness: strings that decompose into accepted parts within the limits are accepted
	if strings.Count(s, ":") == 1 && !strings.Contains(s, "#") {
		t, i, _ := strings.Cut(s, ":")
		if vType(t) && vID(i) && utf8.RuneCountInString(s) <= 256 && !r.obj {
			bad("decomposable-object-rejected", "accepted")
		}
		if vType(t) && i == "*" && !r.wc {
			bad("typed-wildcard-rejected", "accepted")
		}
	}
	if strings.Count(s, ":") == 1 && strings.Count(s, "#") == 1 {
		o, rel, _ := strings.Cut(s, "#")
		t, i, ok := strings.Cut(o, ":")
		if ok && vType(t) && vID(i) && vRelation(rel) && !r.us {
			bad("decomposable-userset-rejected", "accepted")
		}
	}
	if r.obj || r.us || r.wc || r.ty || r.rel || r.id || r.cond {
		run.NonTrivial(s)
		run.Count("strings_accepted_by_some_validator", 1)
	}
}

var ruleReCache sync.Map

func ruleRe(rule string) *regexp.Regexp {
	if x, ok := ruleReCache.Load(rule); ok {
		return x.(*regexp.Regexp)
	}
	re, err := regexp.Compile("^(?:" + rule + ")$")
	if err != nil {
		re = nil
	}
	ruleReCache.Store(rule, re)
	return re
}

// hasOtherSpace: characters outside the five of RE2's \s that Go's class still... (none: RE2 \s is exactly
// [\t\n\f\r ]); kept so that the rule comparison is only made where the shared rule strings define the answer.
func hasOtherSpace(s string) bool { return !utf8.ValidString(s) }

// ---- rule strings shared with JS and Java (artefact comparison at run time) ----

func unescapeSource(lit string) string {
	var sb strings.Builder
	for i := 0; i < len(lit); i++ {
		if lit[i] == '\\' && i+1 < len(lit) {
			i++
			switch lit[i] {
			case 'n':
				sb.WriteByte('\n')
			case 't':
				sb.WriteByte('\t')
			default:
				sb.WriteByte(lit[i])
			}
			continue
		}
		sb.WriteByte(lit[i])
	}
	return sb.String()
}

func checkRuleStrings(run *core.Run) {
	goRules := map[string]string{"type": string(v.RuleType), "relation": string(v.RuleRelation), "condition": string(v.RuleCondition), "id": string(v.RuleID), "object": string(v.RuleObject)}
	repo := gen.RepoDir()
	jsPath := filepath.Join(repo, "pkg/js/validator/validate-rules.ts")
	jsSrc, err := os.ReadFile(jsPath)
	if err != nil {
		run.Inconclusive("cannot read %s: %v", jsPath, err)
		return
	}
	javaPath := ""
	filepath.Walk(filepath.Join(repo, "pkg/java"), func(p string, info os.FileInfo, err error) error {
		if err == nil && !info.IsDir() && filepath.Base(p) == "Validator.java" {
			javaPath = p
		}
		return nil
	})
	javaSrc, err := os.ReadFile(javaPath)
	if err != nil {
		run.Inconclusive("cannot read Validator.java: %v", err)
		return
	}
	jsRe := regexp.MustCompile(`(?m)^\s*(type|relation|condition|id|object|userSet|userObject|userWildcard):\s*"((?:[^"\\]|\\.)*)"`)
	js := map[string]string{}
	for _, m := range jsRe.FindAllStringSubmatch(string(jsSrc), -1) {
		js[m[1]] = unescapeSource(m[2])
	}
	javaRe := regexp.MustCompile(`String\s+(\w+)\s*=\s*"((?:[^"\\]|\\.)*)"`)
	java := map[string]string{}
	for _, m := range javaRe.FindAllStringSubmatch(string(javaSrc), -1) {
		java[strings.ToLower(m[1])] = unescapeSource(m[2])
	}
	javaKey := map[string]string{"type": "type", "relation": "relation", "condition": "condition", "id": "id", "object": "object"}
	for k, g := range goRules {
		c := &core.Case{Kind: "rules", Text: k}
		run.Eval(2)
		if js[k] != g {
			run.Violation("rule-string-differs-from-js:"+k, c, g, fmt.Sprintf("%q (from %s)", js[k], jsPath))
		}
		found := ""
		for jk, jv := range java {
			if jk == javaKey[k] && jv == g {
				found = jk
			}
		}
		if found == "" {
			var cands []string
			for jk, jv := range java {
				if jk == javaKey[k] {
					cands = append(cands, jk+"="+jv)
				}
			}
			run.Violation("rule-string-differs-from-java:"+k, c, g, fmt.Sprintf("%v (from %s)", cands, javaPath))
		}
		run.Count("rule_strings_compared", 2)
	}
}

func runC18(run *core.Run) {
	depth := 3
	alpha := []string{":", "#", "@", "*", " ", "\t", "\n", "\f", "\r", "a", "0", "_", "|", ".", "+", "-", "/", "é"}
	if run.Tier == "thorough" {
		depth = 5
	}
	run.Rule = fmt.Sprintf("every string up to length %d (quick: plus length 4 over 10 class representatives) over 18 class representatives {: # @ * blank tab LF FF CR a 0 _ | . + - / é}, strings composed as type SEP id SEP relation from pools of legal and hostile parts (thorough: 11 x 5 x 14 x 6 x 11 shapes; quick: 6 x 3 x 7 x 4 x 6), boundary lengths around every limit (1, 2, 50/51, 254/255, 256/257 in code points, with multi-byte characters), random Unicode strings; each string goes through all 9 validators and the decomposition predicate R5 (soundness and completeness); the five Rule* constants of the running Go package compared with the strings in the JS and Java sources; non-trivial = string accepted by at least one validator; distinct by string", depth)
	checkRuleStrings(run)
	total := 0
	pw := 1
	for l := 1; l <= depth; l++ {
		pw *= len(alpha)
		total += pw
	}
	core.Parallel(total, func(i int) {
		n := i
		l := 1
		cnt := len(alpha)
		for n >= cnt {
			n -= cnt
			cnt *= len(alpha)
			l++
		}
		var sb strings.Builder
		for k := 0; k < l; k++ {
			sb.WriteString(alpha[n%len(alpha)])
			n /= len(alpha)
		}
		checkValidators(run, sb.String())
	})
	run.Count("exhaustive_strings", int64(total))
	if run.Tier == "quick" {
		// one representative per class, one length further
		alpha2 := []string{":", "#", "@", "*", " ", "\f", "a", "|", "-", "é"}
		t2 := 1
		for k := 0; k < 4; k++ {
			t2 *= len(alpha2)
		}
		core.Parallel(t2, func(i int) {
			n := i
			var sb strings.Builder
			for k := 0; k < 4; k++ {
				sb.WriteString(alpha2[n%len(alpha2)])
				n /= len(alpha2)
			}
			checkValidators(run, sb.String())
		})
		run.Count("exhaustive_strings_length_4_over_9_classes", int64(t2))
	}
	// composed shapes: type SEP id SEP relation with every part drawn from a pool of legal and hostile variants
	// (the shortest string of some shapes, e.g. wildcard + relation "t:*#r", is longer than the exhaustive bound)
	{
		types := []string{"", "a", "doc", "é", "a b", "a*", "a@", "*", "a:b", strings.Repeat("t", 254), strings.Repeat("t", 255)}
		seps1 := []string{":", "", "::", "#", ": "}
		ids := []string{"", "x", "1", "*", "**", "x*", "*x", "a b", "x|y", "x@y.z", "é", "x:y", "x#y", strings.Repeat("i", 250)}
		seps2 := []string{"", "#", "##", ":", "@", " #"}
		rels := []string{"", "r", "member", "*", "r*", "a b", "r#s", "r:s", "é", strings.Repeat("r", 50), strings.Repeat("r", 51)}
		if run.Tier == "quick" {
			types = []string{"", "a", "é", "a b", "a*", "*"}
			seps1 = []string{":", "", "::"}
			ids = []string{"", "x", "*", "x*", "a b", "x@y.z", "x#y"}
			seps2 = []string{"", "#", "##", ":"}
			rels = []string{"", "r", "*", "a b", "r#s", strings.Repeat("r", 51)}
		}
		var cs []string
		for _, t := range types {
			for _, s1 := range seps1 {
				for _, id := range ids {
					for _, s2 := range seps2 {
						for _, rel := range rels {
							if s2 == "" && rel != "" {
								continue
							}
							cs = append(cs, t+s1+id+s2+rel)
						}
					}
				}
			}
		}
		core.Parallel(len(cs), func(i int) { checkValidators(run, cs[i]) })
		run.Count("composed_shape_strings", int64(len(cs)))
	}
	// every code point below U+0180 (and a few beyond) in every slot: first and later position of a type, an id and
	// a relation - a hand-written character test that is off by a range end shows only on the characters in between
	{
		var cps []rune
		for c := rune(0); c < 0x180; c++ {
			cps = append(cps, c)
		}
		cps = append(cps, 0x2028, 0x3000, 0xFEFF, 0xFF21, 0x1F600, 0x10FFFF)
		var cs []string
		for _, c := range cps {
			x := string(c)
			cs = append(cs, x, "a"+x, x+"a", "t:"+x, "t:a"+x, "t:"+x+"a", "t:a"+x+"a", x+":i", "a"+x+":i", x+":*", "a"+x+":*",
				"t:i#"+x, "t:i#a"+x, "t:"+x+"#r", "t:a"+x+"#r", x+":i#r", "a"+x+":i#r")
		}
		core.Parallel(len(cs), func(i int) { checkValidators(run, cs[i]) })
		run.Count("single_code_point_slot_strings", int64(len(cs)))
	}
	// words that mean something elsewhere (DSL keywords, reserved names of other validators, literals of other
	// languages): for the tuple-field rules they are ordinary names
	{
		var cs []string
		for _, w := range []string{"self", "this", "type", "relation", "relations", "define", "model", "schema", "module", "extend", "condition", "with", "from", "and", "or", "but", "not",
			"true", "false", "null", "nil", "undefined", "NaN", "user", "group", "any", "list", "map", "in", "public", "wildcard", "object", "id", "__proto__", "constructor", "toString"} {
			cs = append(cs, w, w+":x", "t:"+w, "t:i#"+w, w+":*", w+":i#"+w, strings.ToUpper(w), strings.ToUpper(w)+":x")
		}
		core.Parallel(len(cs), func(i int) { checkValidators(run, cs[i]) })
		run.Count("reserved_looking_word_strings", int64(len(cs)))
	}
	// boundaries
	var bs []string
	for _, ch := range []string{"a", "é", "_", "日", "😀"} { // 1, 2, 3 and 4 bytes per code point
		for _, n := range []int{1, 2, 49, 50, 51, 253, 254, 255, 256, 257} {
			bs = append(bs, strings.Repeat(ch, n))
			for _, m := range []int{1, 2, 49, 50, 51} {
				bs = append(bs, strings.Repeat(ch, n)+":"+strings.Repeat("a", m), strings.Repeat(ch, n)+":*", "t:"+strings.Repeat("a", n),
					"t:i#"+strings.Repeat(ch, m), strings.Repeat(ch, n)+":i#"+strings.Repeat("a", m))
			}
		}
		for _, n := range []int{250, 251, 252, 253, 254, 255, 256} {
			bs = append(bs, "t:"+strings.Repeat(ch, n), "tt:"+strings.Repeat("a", n))
		}
	}
	core.Parallel(len(bs), func(i int) { checkValidators(run, bs[i]) })
	run.Count("boundary_strings", int64(len(bs)))
	// explicit limits
	lim := func(name string, f func(string) bool, s string, want bool) {
		run.Eval(1)
		if f(s) != want {
			run.Violation("length-limit:"+name, &core.Case{Kind: "string", Text: s}, fmt.Sprint(want), fmt.Sprintf("%v for a string of %d code points", f(s), utf8.RuneCountInString(s)))
		}
	}
	lim("type-254", v.ValidateType, strings.Repeat("a", 254), true)
	lim("type-255", v.ValidateType, strings.Repeat("a", 255), false)
	lim("type-0", v.ValidateType, "", false)
	lim("relation-50", v.ValidateRelation, strings.Repeat("a", 50), true)
	lim("relation-51", v.ValidateRelation, strings.Repeat("a", 51), false)
	lim("condition-50", v.ValidateRelationshipCondition, strings.Repeat("a", 50), true)
	lim("condition-51", v.ValidateRelationshipCondition, strings.Repeat("a", 51), false)
	lim("object-256", v.ValidateObject, "t:"+strings.Repeat("a", 254), true)
	lim("object-257", v.ValidateObject, "t:"+strings.Repeat("a", 255), false)
	lim("object-2", v.ValidateObject, "a:", false)
	lim("object-3", v.ValidateObject, "a:b", true)
	// long strings of mixed byte widths around every limit (the limits count code points, not bytes)
	nl := run.N(3000, 60000)
	widths := []rune{'a', 'é', '日', '😀', '_', '-', 0x10FFFF, 0x7FF, 0x800, 0xFFFF}
	core.Parallel(nl, func(i int) {
		r := run.Rng("c18-long", i)
		L := []int{50, 254, 256, 100, 200}[r.Intn(5)] + r.Intn(6) - 3
		mono := r.Intn(3) == 0
		w := widths[r.Intn(len(widths))]
		part := func(n int) string {
			var sb strings.Builder
			for k := 0; k < n; k++ {
				if !mono {
					w = widths[r.Intn(len(widths))]
				}
				sb.WriteRune(w)
			}
			return sb.String()
		}
		var s string
		switch r.Intn(6) {
		case 0:
			s = part(L)
		case 1:
			s = part(L) + ":*"
		case 2:
			s = "t:" + part(L-2)
		case 3:
			k := 1 + r.Intn(L)
			s = part(k) + ":" + part(L-k)
		case 4:
			s = "t:i#" + part(L)
		case 5:
			s = part(L) + ":i#" + part(1+r.Intn(52))
		}
		checkValidators(run, s)
		run.Count("long_mixed_width_strings", 1)
	})
	// random Unicode
	n := run.N(3000, 60000)
	pool := []rune{':', '#', '@', '*', ' ', '\t', '\n', '\r', '\f', 'a', 'Z', '0', '_', '|', '.', '+', '-', '/', 'é', '日', ' ', ' ', '\v', 0, '\\', '"', '$', '😀'}
	core.Parallel(n, func(i int) {
		r := run.Rng("c18", i)
		var sb strings.Builder
		for k := 1 + r.Intn(12); k > 0; k-- {
			if r.Intn(8) == 0 {
				sb.WriteRune(rune(r.Intn(0x3000)))
			} else {
				sb.WriteRune(pool[r.Intn(len(pool))])
			}
		}
		checkValidators(run, sb.String())
		run.SampleAt(i, n/4+1, func() any { return sb.String() })
	})
}

func replayC18(run *core.Run, c *core.Case) {
	if c.Kind == "rules" {
		checkRuleStrings(run)
		return
	}
	checkValidators(run, c.Text)
}
