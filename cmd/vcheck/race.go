package main

import (
	"encoding/json"
	"fmt"
	"os"
	"os/exec"
	"path/filepath"
	"regexp"
	"sort"
	"strings"

	"verif/internal/core"
)

// M-race: runs the racetests package under the Go race detector and turns its reports and mismatches
// into violations of the calling property.

type raceResult struct {
	Rounds           int            `json:"rounds"`
	Calls            int64          `json:"calls"`
	OverlappingPairs int64          `json:"overlapping_pairs"`
	PerMix           map[string]int `json:"per_mix"`
	Mismatches       []struct {
		Mix      string   `json:"mix"`
		Detail   string   `json:"detail"`
		Model    string   `json:"model"`
		Texts    []string `json:"texts"`
		Expected string   `json:"expected"`
		Observed string   `json:"observed"`
	} `json:"mismatches"`
	DistinctInputs int    `json:"distinct_inputs"`
	Sample         string `json:"sample"`
}

func srcDir() string {
	if e := os.Getenv("VERIF_SRC"); e != "" {
		return e
	}
	return core.Root
}

func goArgs(args ...string) []string {
	out := []string{args[0]}
	if mf := os.Getenv("VERIF_MODFILE"); mf != "" {
		out = append(out, "-modfile="+mf)
	}
	return append(out, args[1:]...)
}

var crashFrameRe = regexp.MustCompile(`(?m)^github\.com/openfga/language/pkg/go/(graph|transformer|utils|validation)\.`)

var frameRe = regexp.MustCompile(`(?m)^\s+(github\.com/openfga/language/pkg/go/[^\s(]+)\(`)

func raceRun(run *core.Run, mix string, rounds int, repeats int) {
	tmp, err := os.MkdirTemp(filepath.Join(core.Root), "tmp-race-")
	if err != nil {
		os.MkdirAll(core.Root, 0o755)
		tmp, err = os.MkdirTemp("", "verif-race-")
		if err != nil {
			run.Inconclusive("cannot create a scratch directory for the race run: %v", err)
			return
		}
	}
	defer os.RemoveAll(tmp)
	// build once, run `repeats` times (race reports vary from run to run)
	bin := filepath.Join(tmp, "racetests.test")
	build := exec.Command("go", goArgs("test", "-race", "-tags", "verif", "-c", "-o", bin, "./racetests/")...)
	build.Dir = srcDir()
	build.Env = append(os.Environ(), "GOFLAGS=-mod=mod", "GOPROXY=off", "GOSUMDB=off", "GOTOOLCHAIN=local")
	if out, err := build.CombinedOutput(); err != nil {
		run.Inconclusive("race-instrumented build failed: %v\n%s", err, clipStr(string(out), 2000))
		return
	}
	seen := map[string]bool{}
	type job struct {
		test, cold string
		seed       int64
	}
	var jobs []job
	for rep := 0; rep < repeats; rep++ {
		jobs = append(jobs, job{"TestConcurrent", "", run.Seed + int64(rep)*7919})
	}
	// cold starts: one fresh process per family of entry points whose very first calls are concurrent
	cold := []string{"build"}
	if mix == "c13" {
		cold = []string{"parse", "parse-modular", "parse-json", "render", "render-json", "build", "plain", "merge", "modfile-validators"}
	}
	for rep := 0; rep < repeats+1; rep++ {
		for _, fam := range cold {
			jobs = append(jobs, job{"TestColdStart", fam, run.Seed + int64(rep)*104729})
		}
	}
	for rep, jb := range jobs {
		outFile := filepath.Join(tmp, fmt.Sprintf("out-%d.json", rep))
		logPrefix := filepath.Join(tmp, fmt.Sprintf("race-%d", rep))
		cmd := exec.Command(bin, "-test.run", "^"+jb.test+"$", "-test.count=1", "-test.timeout=8m")
		cmd.Dir = filepath.Join(srcDir(), "racetests")
		cmd.Env = append(os.Environ(),
			"GORACE=halt_on_error=0 log_path="+logPrefix,
			fmt.Sprintf("VERIF_RACE_ROUNDS=%d", rounds),
			"VERIF_RACE_OUT="+outFile,
			"VERIF_RACE_MIX="+mix,
			"VERIF_RACE_COLD="+jb.cold,
			fmt.Sprintf("VERIF_SEED=%d", jb.seed),
		)
		out, err := cmd.CombinedOutput()
		b, rerr := os.ReadFile(outFile)
		scanRaceLogs := func() {
			logs, _ := filepath.Glob(logPrefix + ".*")
			sort.Strings(logs)
			for _, lf := range logs {
				lb, err := os.ReadFile(lf)
				if err != nil {
					continue
				}
				for _, block := range strings.Split(string(lb), "==================") {
					if !strings.Contains(block, "WARNING: DATA RACE") {
						continue
					}
					run.Count("race_reports_total", 1)
					frames := frameRe.FindAllStringSubmatch(block, -1)
					if len(frames) == 0 {
						run.Count("race_reports_without_repo_frame", 1)
						run.Note("race report without a frame of the repository:\n%s", clipStr(block, 1500))
						continue
					}
					// de-duplicate by the pair of outermost repo frames of the two stacks
					parts := strings.Split(block, "Previous ")
					key := ""
					for _, p := range parts[:min2(len(parts), 2)] {
						fs := frameRe.FindAllStringSubmatch(p, -1)
						if len(fs) > 0 {
							key += fs[len(fs)-1][1] + " | "
						}
					}
					if seen[key] {
						continue
					}
					seen[key] = true
					run.Violation("data-race:"+key, &core.Case{Kind: "race", Text: block, Extra: map[string]string{"mix": mix}}, "no data race in code reached from the repository", clipStr(block, 4000))
				}
			}
		}
		if rerr != nil {
			// the workload process died. Whatever the race detector had reported until then still counts; a panic or
			// fatal error with a frame of the repository on its stack is the code under test failing under concurrency
			scanRaceLogs()
			txt := string(out)
			if (strings.Contains(txt, "panic:") || strings.Contains(txt, "fatal error:")) && crashFrameRe.MatchString(txt) {
				i := strings.Index(txt, "panic:")
				if j := strings.Index(txt, "fatal error:"); i < 0 || (j >= 0 && j < i) {
					i = j
				}
				run.Violation("crash-under-concurrency", &core.Case{Kind: "race", Text: clipStr(txt[i:], 6000), Extra: map[string]string{"mix": mix, "test": jb.test, "cold": jb.cold}},
					"every call returns a result or an error, also while other goroutines call into the library", clipStr(txt[i:], 3000))
				continue
			}
			if run.Counter("race_reports_total") == 0 {
				run.Inconclusive("race workload did not finish (%v): %s", err, clipStr(string(out), 1500))
				return
			}
			continue
		}
		var rr raceResult
		if json.Unmarshal(b, &rr) != nil {
			run.Inconclusive("cannot decode the race workload result")
			return
		}
		run.Eval(int(rr.Calls))
		if jb.cold != "" {
			run.Count("race_cold_start_processes", 1)
		} else {
			run.Count("race_rounds", int64(rr.Rounds))
		}
		run.Count("race_concurrent_calls", rr.Calls)
		run.Count("race_overlapping_call_pairs_observed", rr.OverlappingPairs)
		run.Count("race_distinct_inputs", int64(rr.DistinctInputs))
		for k, v := range rr.PerMix {
			run.Count("race_rounds:"+k, int64(v))
		}
		if rep == 0 && rr.Sample != "" && run.Prop == "C06" {
			run.Note("sample of a concurrently built model:\n%s", rr.Sample)
		}
		for _, mm := range rr.Mismatches {
			c := &core.Case{Kind: "concurrent", Model: mm.Model, Strs: mm.Texts, Extra: map[string]string{"mix": mm.Mix}}
			run.Violation("concurrent-result-differs:"+mm.Mix, c, clipStr(mm.Expected, 3000), mm.Detail+"\n"+clipStr(mm.Observed, 3000))
		}
		// race reports
		scanRaceLogs()
		if err != nil && len(rr.Mismatches) == 0 && run.Counter("race_reports_total") == 0 {
			run.Inconclusive("race workload exited with %v without a report: %s", err, clipStr(string(out), 1500))
		}
	}
	run.Count("race_runs", int64(repeats))
}

func min2(a, b int) int {
	if a < b {
		return a
	}
	return b
}

func clipStr(s string, n int) string {
	if len(s) > n {
		return s[:n] + "…"
	}
	return s
}
