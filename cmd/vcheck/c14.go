package main

import (
	"encoding/json"
	"fmt"
	"math/rand"
	"regexp"
	"sort"
	"strings"
	"sync"

	openfgav1 "github.com/openfga/api/proto/openfga/v1"
	"github.com/openfga/language/pkg/go/transformer"
	"google.golang.org/protobuf/proto"

	"verif/internal/core"
	"verif/internal/gen"
)

// C14: DSL output is canonical and source-info comments are inert.

func init() { register("C14", runC14, replayC14, 200) }

var hostileModules = []string{"core", "org", "a-b", "z mod", "m #1", "m, file: x", "ü", "a/b", "0"}
var hostileFiles = []string{"", "core.fga", "sub/org.fga", "z #x.fga", "ü.fga", "a, file: b", "..\\w.fga", " lead.fga", "# h.fga", "module: m"}

func stripSourceComments(s string) string {
	var out []string
	for _, ln := range strings.Split(s, "\n") {
		if i := strings.Index(ln, " #"); i >= 0 {
			ln = ln[:i]
		}
		out = append(out, ln)
	}
	return strings.Join(out, "\n")
}

// c14Model: an expressible (partly attributed, possibly modular) model.
func c14Model(r *rand.Rand) *openfgav1.AuthorizationModel {
	m := c02Model(r)
	for _, td := range m.GetTypeDefinitions() {
		for rn, us := range td.GetRelations() {
			for !expressible(us) {
				us = c02Userset(r, 1)
			}
			td.Relations[rn] = us
			if usCountThis(us) == 0 && r.Intn(2) == 0 {
				// no direct assignment: the relation needs no metadata entry (API-style JSON often has none)
				if td.GetMetadata().GetRelations() != nil {
					delete(td.Metadata.Relations, rn)
				}
				continue
			}
			if td.GetMetadata().GetRelations()[rn] == nil {
				if td.Metadata == nil {
					td.Metadata = &openfgav1.Metadata{}
				}
				if td.Metadata.Relations == nil {
					td.Metadata.Relations = map[string]*openfgav1.RelationMetadata{}
				}
				td.Metadata.Relations[rn] = &openfgav1.RelationMetadata{}
			}
			if usCountThis(us) > 0 && len(td.Metadata.Relations[rn].DirectlyRelatedUserTypes) == 0 {
				td.Metadata.Relations[rn].DirectlyRelatedUserTypes = []*openfgav1.RelationReference{{Type: "user"}}
			}
		}
	}
	for _, cd := range m.GetConditions() {
		cd.Expression = exprPool[r.Intn(len(exprPool))]
	}
	if r.Intn(4) == 0 {
		// a type with several relations made of computed usersets only and no relation metadata at all
		td := &openfgav1.TypeDefinition{Type: "nometa", Relations: map[string]*openfgav1.Userset{}}
		for k := 2 + r.Intn(4); k > 0; k-- {
			td.Relations[c02Names[r.Intn(len(c02Names))]] = gen.Computed(c02Names[r.Intn(len(c02Names))])
		}
		if r.Intn(2) == 0 {
			td.Metadata = &openfgav1.Metadata{}
		}
		m.TypeDefinitions = append(m.TypeDefinitions, td)
	}
	if r.Intn(40) == 0 {
		// many types (50-110): thresholds of batching / parallel rendering, sort routines on long lists
		perm := r.Perm(50 + r.Intn(60))
		for _, k := range perm {
			td := &openfgav1.TypeDefinition{Type: fmt.Sprintf("bulk_%03d", k)}
			if r.Intn(3) > 0 {
				td.Relations = map[string]*openfgav1.Userset{"member": gen.This()}
				td.Metadata = &openfgav1.Metadata{Relations: map[string]*openfgav1.RelationMetadata{"member": {DirectlyRelatedUserTypes: []*openfgav1.RelationReference{{Type: "user"}}}}}
			}
			m.TypeDefinitions = append(m.TypeDefinitions, td)
		}
	}
	if r.Intn(7) == 0 {
		// NOT modular (no type carries a module) but relations / conditions / types carry stray attribution, as a
		// model assembled by hand or by another tool may: the order stays "by name", the option only adds comments
		for _, td := range m.GetTypeDefinitions() {
			if td.Metadata == nil {
				continue
			}
			td.Metadata.Module, td.Metadata.SourceInfo = "", nil
			if r.Intn(3) == 0 {
				td.Metadata.SourceInfo = &openfgav1.SourceInfo{File: hostileFiles[r.Intn(len(hostileFiles))]}
			}
			for _, md := range td.Metadata.Relations {
				md.Module, md.SourceInfo = "", nil
				if r.Intn(3) > 0 {
					md.Module = hostileModules[r.Intn(len(hostileModules))]
					md.SourceInfo = &openfgav1.SourceInfo{File: hostileFiles[r.Intn(len(hostileFiles))]}
				}
			}
		}
		for _, cd := range m.GetConditions() {
			cd.Metadata = nil
			if r.Intn(2) == 0 {
				cd.Metadata = &openfgav1.ConditionMetadata{Module: hostileModules[r.Intn(len(hostileModules))], SourceInfo: &openfgav1.SourceInfo{File: hostileFiles[r.Intn(len(hostileFiles))]}}
			}
		}
		return m
	}
	if r.Intn(2) == 0 {
		// attribution with hostile names
		for _, td := range m.GetTypeDefinitions() {
			k := r.Intn(10)
			if k == 0 {
				// a type left exactly as generated inside a modular model - possibly without any metadata at all
				continue
			}
			if td.Metadata == nil {
				td.Metadata = &openfgav1.Metadata{}
			}
			if k == 1 {
				// unattributed type inside a modular model; its relations may still come from other modules' extensions
				td.Metadata.Module, td.Metadata.SourceInfo = "", nil
			} else {
				td.Metadata.Module = hostileModules[r.Intn(len(hostileModules))]
				td.Metadata.SourceInfo = &openfgav1.SourceInfo{File: hostileFiles[r.Intn(len(hostileFiles))]}
				if r.Intn(6) == 0 {
					td.Metadata.SourceInfo = nil // what TransformModularDSLToProto returns: a module but no source info
				}
			}
			for _, md := range td.Metadata.Relations {
				md.Module, md.SourceInfo = "", nil
				if r.Intn(2) == 0 {
					md.Module = hostileModules[r.Intn(len(hostileModules))]
					md.SourceInfo = &openfgav1.SourceInfo{File: hostileFiles[r.Intn(len(hostileFiles))]}
					if r.Intn(6) == 0 {
						md.SourceInfo = nil
					}
				}
			}
		}
		for _, cd := range m.GetConditions() {
			cd.Metadata = nil
			if r.Intn(3) > 0 {
				cd.Metadata = &openfgav1.ConditionMetadata{Module: hostileModules[r.Intn(len(hostileModules))], SourceInfo: &openfgav1.SourceInfo{File: hostileFiles[r.Intn(len(hostileFiles))]}}
				if r.Intn(6) == 0 {
					cd.Metadata.SourceInfo = nil
				}
			}
		}
	} else {
		for _, td := range m.GetTypeDefinitions() {
			if td.Metadata != nil {
				td.Metadata.Module, td.Metadata.SourceInfo = "", nil
				for _, md := range td.Metadata.Relations {
					md.Module, md.SourceInfo = "", nil
				}
			}
		}
		for _, cd := range m.GetConditions() {
			cd.Metadata = nil
		}
	}
	return m
}

// shuffleJSON re-encodes a JSON document with random object key order and random insignificant whitespace.
func shuffleJSON(r *rand.Rand, s string) (string, error) {
	dec := json.NewDecoder(strings.NewReader(s))
	dec.UseNumber()
	var v any
	if err := dec.Decode(&v); err != nil {
		return "", err
	}
	var sb strings.Builder
	ws := func() {
		sb.WriteString([]string{"", "", " ", "\n", "\t", "  "}[r.Intn(6)])
	}
	var enc func(v any)
	enc = func(v any) {
		switch x := v.(type) {
		case map[string]any:
			keys := make([]string, 0, len(x))
			for k := range x {
				keys = append(keys, k)
			}
			sort.Strings(keys)
			r.Shuffle(len(keys), func(i, j int) { keys[i], keys[j] = keys[j], keys[i] })
			sb.WriteString("{")
			for i, k := range keys {
				if i > 0 {
					sb.WriteString(",")
				}
				ws()
				kb, _ := json.Marshal(k)
				sb.Write(kb)
				ws()
				sb.WriteString(":")
				ws()
				enc(x[k])
			}
			ws()
			sb.WriteString("}")
		case []any:
			sb.WriteString("[")
			for i, e := range x {
				if i > 0 {
					sb.WriteString(",")
				}
				ws()
				enc(e)
			}
			ws()
			sb.WriteString("]")
		default:
			b, _ := json.Marshal(x)
			sb.Write(b)
		}
	}
	enc(v)
	return sb.String(), nil
}

type orderKey struct {
	attributed   bool
	module, file string
	name         string
}

func lessKey(a, b orderKey) bool {
	// documented order: unattributed items first (by name), then by module, file, name
	if a.attributed != b.attributed {
		return !a.attributed
	}
	if !a.attributed {
		return a.name < b.name
	}
	if a.module != b.module {
		return a.module < b.module
	}
	if a.file != b.file {
		return a.file < b.file
	}
	return a.name < b.name
}

var defineRe = regexp.MustCompile(`^    define ([^:]+): `)
var condRe = regexp.MustCompile(`^condition ([^(]+)\(([^)]*)\) \{$`)

func checkCanonical(run *core.Run, m *openfgav1.AuthorizationModel, r *rand.Rand, repeats int) {
	run.Guard(&core.Case{Kind: "model", Model: modelJSON(m)}, func() { checkCanonical1(run, m, r, repeats) })
}

func checkCanonical1(run *core.Run, m *openfgav1.AuthorizationModel, r *rand.Rand, repeats int) {
	c := &core.Case{Kind: "model", Model: modelJSON(m)}
	clone := func() *openfgav1.AuthorizationModel { return proto.Clone(m).(*openfgav1.AuthorizationModel) }
	first := clone()
	plain, err := transformer.TransformJSONProtoToDSL(first)
	// the very same object once more: verdict and bytes must repeat (the other repeats below use fresh copies)
	again, err2 := transformer.TransformJSONProtoToDSL(first)
	run.Eval(2)
	if (err == nil) != (err2 == nil) || plain != again {
		run.Violation("output-differs-between-calls-on-one-object", c, fmt.Sprint(plain, err), fmt.Sprint(again, err2))
		return
	}
	if err != nil {
		run.Count("models_not_renderable", 1)
		// a model that cannot be rendered: WHICH error is returned is as much a function of the model's content as
		// the text would be (several faults: the first one in the documented order, every time)
		for k := 0; k < repeats+3; k++ {
			_, e := transformer.TransformJSONProtoToDSL(clone())
			run.Eval(1)
			if e == nil || e.Error() != err.Error() {
				run.Violation("error-differs-between-calls", c, err.Error(), fmt.Sprint(e))
				return
			}
		}
		return
	}
	// 1. repeated calls
	for k := 0; k < repeats; k++ {
		p, e := transformer.TransformJSONProtoToDSL(clone())
		run.Eval(1)
		if e != nil || p != plain {
			run.Violation("output-differs-between-calls", c, plain, p+fmt.Sprint(e))
			return
		}
	}
	// 1b. a failing call in between must leave nothing behind (buffers, caches): the poison model renders some
	// conditions and then fails on a later one
	if r.Intn(4) == 0 {
		for _, poison := range poisonModels() {
			if _, perr := transformer.TransformJSONProtoToDSL(poison, transformer.WithIncludeSourceInformation(r.Intn(2) == 0)); perr == nil {
				run.Count("poison_models_unexpectedly_rendered", 1)
			}
		}
		p, e := transformer.TransformJSONProtoToDSL(clone())
		run.Eval(3)
		run.Count("renders_after_a_failing_call", 1)
		if e != nil || p != plain {
			run.Violation("output-differs-after-a-failing-call", c, plain, p+fmt.Sprint(e))
			return
		}
	}
	// 2. JSON encodings
	for k := 0; k < 2; k++ {
		js, e := shuffleJSON(r, c.Model)
		if e != nil {
			break
		}
		p, e := transformer.TransformJSONStringToDSL(js)
		run.Eval(1)
		run.Count("json_encodings_tried", 1)
		if e != nil || *p != plain {
			run.Violation("output-depends-on-json-encoding", &core.Case{Kind: "json", Model: c.Model, Text: js}, plain, fmt.Sprint(e, p))
			return
		}
	}
	// 3. modular: type order
	modular := false
	for _, td := range m.GetTypeDefinitions() {
		if td.GetMetadata().GetModule() != "" {
			modular = true
		}
	}
	if modular {
		run.Count("modular_models", 1)
		// 3a. repeated calls that overlap: goroutines render one fresh copy at the same moment (first thing done
		// with that copy), every output must be the sequential one
		if len(m.GetTypeDefinitions()) >= 3 {
			shared := clone()
			r.Shuffle(len(shared.TypeDefinitions), func(a, b int) {
				shared.TypeDefinitions[a], shared.TypeDefinitions[b] = shared.TypeDefinitions[b], shared.TypeDefinitions[a]
			})
			const G = 8
			outs := make([]string, G)
			var start, done sync.WaitGroup
			start.Add(1)
			for g := 0; g < G; g++ {
				done.Add(1)
				go func(g int) {
					defer done.Done()
					defer func() {
						if x := recover(); x != nil {
							outs[g] = fmt.Sprint("panic: ", x)
						}
					}()
					start.Wait()
					o, e := transformer.TransformJSONProtoToDSL(shared)
					outs[g] = o + fmt.Sprint(e)
				}(g)
			}
			start.Done()
			done.Wait()
			run.Eval(G)
			run.Count("overlapping_renders_of_one_model", G)
			for _, o := range outs {
				if o != plain+"<nil>" {
					run.Violation("output-differs-between-overlapping-calls", c, plain, o)
					return
				}
			}
		}
		for k := 0; k < 3; k++ {
			pm := clone()
			r.Shuffle(len(pm.TypeDefinitions), func(a, b int) {
				pm.TypeDefinitions[a], pm.TypeDefinitions[b] = pm.TypeDefinitions[b], pm.TypeDefinitions[a]
			})
			p, e := transformer.TransformJSONProtoToDSL(pm)
			run.Eval(1)
			if e != nil || p != plain {
				run.Violation("output-depends-on-type-order", c, plain, p+fmt.Sprint(e))
				return
			}
		}
	}
	// 4. documented order
	lines := strings.Split(plain, "\n")
	var curType *openfgav1.TypeDefinition
	var gotTypes, gotRels, gotConds []string
	flushRels := func() {
		if curType == nil {
			return
		}
		var want []orderKey
		for rn := range curType.GetRelations() {
			md := curType.GetMetadata().GetRelations()[rn]
			k := orderKey{name: rn}
			if modular && md.GetModule() != "" {
				k = orderKey{true, md.GetModule(), md.GetSourceInfo().GetFile(), rn}
			}
			want = append(want, k)
		}
		sort.Slice(want, func(i, j int) bool { return lessKey(want[i], want[j]) })
		var wn []string
		for _, k := range want {
			wn = append(wn, k.name)
		}
		if strings.Join(wn, ",") != strings.Join(gotRels, ",") {
			run.Violation("relations-not-in-documented-order", c, curType.GetType()+": "+strings.Join(wn, ","), strings.Join(gotRels, ",")+"\n"+plain)
		}
		gotRels = nil
	}
	for _, l := range lines {
		switch {
		case strings.HasPrefix(l, "type "):
			flushRels()
			name := strings.TrimPrefix(l, "type ")
			gotTypes = append(gotTypes, name)
			curType = nil
			for _, td := range m.GetTypeDefinitions() {
				if td.GetType() == name {
					curType = td
				}
			}
		case defineRe.MatchString(l):
			gotRels = append(gotRels, defineRe.FindStringSubmatch(l)[1])
		case condRe.MatchString(l):
			flushRels()
			curType = nil
			mm := condRe.FindStringSubmatch(l)
			gotConds = append(gotConds, mm[1])
			var pn []string
			if mm[2] != "" {
				for _, p := range strings.Split(mm[2], ", ") {
					pn = append(pn, strings.SplitN(p, ": ", 2)[0])
				}
			}
			if !sort.StringsAreSorted(pn) {
				run.Violation("parameters-not-sorted", c, "parameters by name", l)
			}
			if len(pn) != len(m.GetConditions()[mm[1]].GetParameters()) {
				run.Violation("parameters-missing", c, fmt.Sprint(len(m.GetConditions()[mm[1]].GetParameters())), l)
			}
		}
	}
	flushRels()
	var wantTypes []string
	if modular {
		var ks []orderKey
		for _, td := range m.GetTypeDefinitions() {
			k := orderKey{name: td.GetType()}
			if td.GetMetadata().GetModule() != "" {
				k = orderKey{true, td.GetMetadata().GetModule(), td.GetMetadata().GetSourceInfo().GetFile(), td.GetType()}
			}
			ks = append(ks, k)
		}
		sort.Slice(ks, func(i, j int) bool { return lessKey(ks[i], ks[j]) })
		for _, k := range ks {
			wantTypes = append(wantTypes, k.name)
		}
	} else {
		for _, td := range m.GetTypeDefinitions() {
			wantTypes = append(wantTypes, td.GetType())
		}
	}
	if strings.Join(wantTypes, ",") != strings.Join(gotTypes, ",") {
		run.Violation("types-not-in-documented-order", c, strings.Join(wantTypes, ","), strings.Join(gotTypes, ",")+"\n"+plain)
	}
	var ck []orderKey
	for cn, cd := range m.GetConditions() {
		k := orderKey{name: cn}
		if cd.GetMetadata().GetModule() != "" {
			k = orderKey{true, cd.GetMetadata().GetModule(), cd.GetMetadata().GetSourceInfo().GetFile(), cn}
		}
		ck = append(ck, k)
	}
	sort.Slice(ck, func(i, j int) bool { return lessKey(ck[i], ck[j]) })
	var wc []string
	for _, k := range ck {
		wc = append(wc, k.name)
	}
	if strings.Join(wc, ",") != strings.Join(gotConds, ",") {
		run.Violation("conditions-not-in-documented-order", c, strings.Join(wc, ","), strings.Join(gotConds, ",")+"\n"+plain)
	}
	// 5. source information
	src, err := transformer.TransformJSONProtoToDSL(clone(), transformer.WithIncludeSourceInformation(true))
	run.Eval(1)
	if err != nil {
		run.Violation("source-info-variant-fails", c, "rendering succeeds", err.Error())
		return
	}
	off, err := transformer.TransformJSONProtoToDSL(clone(), transformer.WithIncludeSourceInformation(false))
	if err != nil || off != plain {
		run.Violation("explicit-false-option-differs-from-default", c, plain, off)
	}
	hasLF := strings.Contains(c.Model, `\n`) && attributionHasLineBreak(m)
	if stripSourceComments(src) != plain {
		if _, ok := run.FindingListed("K4"); ok && hasLF {
			run.Known("K4")
			return
		}
		run.Violation("source-comments-not-inert", c, plain, src)
		return
	}
	if src != plain {
		run.Count("outputs_with_source_comments", 1)
		if !strings.Contains(src, " # module: ") && !strings.Contains(src, " # extended by: module: ") {
			run.Violation("source-comment-format", c, "' # module: M, file: F' comments", src)
		}
	}
	m1, e1 := transformer.TransformDSLToProto(plain)
	m2, e2 := transformer.TransformDSLToProto(src)
	run.Eval(2)
	if !parsedFinite(run, c, m1, m2) {
		return
	}
	if (e1 == nil) != (e2 == nil) || (e1 == nil && !proto.Equal(m1, m2)) {
		run.Violation("source-variant-parses-differently", c, fmt.Sprint(e1), fmt.Sprint(e2)+"\n"+src)
		return
	}
	if len(m.GetTypeDefinitions()) > 0 {
		run.NonTrivial(modelKey(m))
	}
}

// poisonModels: models on which the printer fails late (after having rendered something).
func poisonModels() []*openfgav1.AuthorizationModel {
	intP := map[string]*openfgav1.ConditionParamTypeRef{"x": {TypeName: openfgav1.ConditionParamTypeRef_TYPE_NAME_INT}}
	return []*openfgav1.AuthorizationModel{
		{SchemaVersion: "1.1", TypeDefinitions: []*openfgav1.TypeDefinition{{Type: "leftover_type"}}, Conditions: map[string]*openfgav1.Condition{
			"aaa_leftover": {Name: "aaa_leftover", Expression: "x < 1", Parameters: intP},
			"zzz_bad":      {Name: "other_name", Expression: "x < 1", Parameters: intP}}},
		{SchemaVersion: "1.1", Conditions: map[string]*openfgav1.Condition{
			"aaa_leftover2": {Name: "aaa_leftover2", Expression: "x < 2", Parameters: intP},
			"zzz_bad":       {Name: "zzz_bad", Expression: "x", Parameters: map[string]*openfgav1.ConditionParamTypeRef{"l": {TypeName: openfgav1.ConditionParamTypeRef_TYPE_NAME_LIST}}}}},
		{SchemaVersion: "1.1", TypeDefinitions: []*openfgav1.TypeDefinition{{Type: "aaa_leftover_type", Relations: map[string]*openfgav1.Userset{"ok": gen.Computed("x")}},
			{Type: "zzz", Relations: map[string]*openfgav1.Userset{"aaa": gen.Computed("x"), "bad": gen.Union(gen.This(), gen.This())},
				Metadata: &openfgav1.Metadata{Relations: map[string]*openfgav1.RelationMetadata{"bad": {DirectlyRelatedUserTypes: []*openfgav1.RelationReference{{Type: "user"}}}}}}}},
	}
}

func attributionHasLineBreak(m *openfgav1.AuthorizationModel) bool {
	has := func(s string) bool { return strings.ContainsAny(s, "\n\r") }
	for _, td := range m.GetTypeDefinitions() {
		if has(td.GetMetadata().GetModule()) || has(td.GetMetadata().GetSourceInfo().GetFile()) {
			return true
		}
		for _, md := range td.GetMetadata().GetRelations() {
			if has(md.GetModule()) || has(md.GetSourceInfo().GetFile()) {
				return true
			}
		}
	}
	for _, cd := range m.GetConditions() {
		if has(cd.GetMetadata().GetModule()) || has(cd.GetMetadata().GetSourceInfo().GetFile()) {
			return true
		}
	}
	return false
}

func runC14(run *core.Run) {
	run.Rule = "random expressible models (plain and modular, partly attributed, hostile module and file names: blanks, ' #', ', file:', non-ASCII, separators - no line break, that is finding K4) rendered repeatedly, through 2 JSON re-encodings with shuffled object keys and random whitespace, under 3 shuffles of type_definitions (modular), with and without source information; order predicate on types/relations/conditions/parameters computed from the documented rule; comment-stripped source variant must equal the plain output and parse to the same model; non-trivial = model with >=1 type; distinct by deterministic serialisation"
	if f, ok := run.FindingListed("K4"); ok {
		if c, err := core.LoadCase(core.Root + "/" + f.Witness); err == nil {
			replayC14(run, c)
		} else {
			run.Note("K4 witness missing: %v", err)
		}
	}
	// models with SEVERAL independent faults of one kind (mismatching condition names, container parameters without
	// element type, inexpressible relations): the error must be the same on every call
	nf := run.N(300, 6000)
	core.Parallel(nf, func(i int) {
		r := run.Rng("c14-faulty", i)
		m := c14Model(r)
		intP := map[string]*openfgav1.ConditionParamTypeRef{"x": {TypeName: openfgav1.ConditionParamTypeRef_TYPE_NAME_INT}}
		if m.Conditions == nil {
			m.Conditions = map[string]*openfgav1.Condition{}
		}
		switch i % 3 {
		case 0:
			for k := 0; k < 2+r.Intn(4); k++ {
				m.Conditions[fmt.Sprintf("key_%c%d", 'a'+rune(r.Intn(26)), k)] = &openfgav1.Condition{Name: fmt.Sprintf("other_%d", k), Expression: "x < 1", Parameters: intP}
			}
		case 1:
			ps := map[string]*openfgav1.ConditionParamTypeRef{}
			for k := 0; k < 2+r.Intn(4); k++ {
				ps[fmt.Sprintf("p_%c%d", 'a'+rune(r.Intn(26)), k)] = &openfgav1.ConditionParamTypeRef{TypeName: openfgav1.ConditionParamTypeRef_TYPE_NAME_LIST}
			}
			m.Conditions["faulty"] = &openfgav1.Condition{Name: "faulty", Expression: "x", Parameters: ps}
			m.Conditions["faulty2"] = &openfgav1.Condition{Name: "faulty2", Expression: "x", Parameters: ps}
		case 2:
			td := &openfgav1.TypeDefinition{Type: "faulty", Relations: map[string]*openfgav1.Userset{}, Metadata: &openfgav1.Metadata{Relations: map[string]*openfgav1.RelationMetadata{}}}
			for k := 0; k < 2+r.Intn(4); k++ {
				rn := fmt.Sprintf("bad_%c%d", 'a'+rune(r.Intn(26)), k)
				td.Relations[rn] = gen.Union(gen.Computed("x"), gen.Inter(gen.Computed("y"), gen.This()))
				td.Metadata.Relations[rn] = &openfgav1.RelationMetadata{DirectlyRelatedUserTypes: []*openfgav1.RelationReference{{Type: "user"}}}
			}
			m.TypeDefinitions = append(m.TypeDefinitions, td)
		}
		checkCanonical(run, m, r, run.N(3, 6))
		run.Count("models_with_several_faults", 1)
	})
	n := run.N(15000, 400000)
	core.Parallel(n, func(i int) {
		r := run.Rng("c14", i)
		m := c14Model(r)
		checkCanonical(run, m, r, run.N(3, 6))
		run.SampleAt(i, n/3+1, func() any { return modelJSON(m) })
	})
}

func replayC14(run *core.Run, c *core.Case) {
	m, err := modelFromJSON(c.Model)
	if err != nil {
		fmt.Println("cannot load model:", err)
		return
	}
	checkCanonical(run, m, run.Rng("replay", 0), 6)
}
