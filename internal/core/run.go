// Package core holds what every check shares: the run record (counters, distinct
// non-trivial cases, samples, violations, known findings, inconclusive notes), the
// evidence writer, the replay files and the worker pool.
package core

import (
	"bufio"
	"encoding/json"
	"fmt"
	"hash/fnv"
	"math/rand"
	"os"
	"path/filepath"
	"regexp"
	"runtime"
	"sort"
	"strings"
	"sync"
	"time"
)

// Root is the directory of the harness (/verif); set by the driver.
var Root = "/verif"

// Case is the serialisable unit every monitor works on; a replay file holds one.
type Case struct {
	Property string            `json:"property"`
	Kind     string            `json:"kind"`            // which monitor of the property
	DSL      string            `json:"dsl,omitempty"`   // DSL text
	Model    string            `json:"model,omitempty"` // protojson of a model
	Files    []File            `json:"files,omitempty"` // module files
	Text     string            `json:"text,omitempty"`  // manifest / arbitrary string
	Strs     []string          `json:"strs,omitempty"`
	Ints     []int             `json:"ints,omitempty"`
	Extra    map[string]string `json:"extra,omitempty"`
	// filled in when written as a witness
	Class    string `json:"class,omitempty"`
	Expected string `json:"expected,omitempty"`
	Observed string `json:"observed,omitempty"`
}

type File struct {
	Name     string `json:"name"`
	Contents string `json:"contents"`
}

type Run struct {
	Prop  string
	Tier  string
	Seed  int64
	Level string
	Rule  string
	start time.Time

	mu           sync.Mutex
	wdMu         sync.Mutex
	inflight     map[int64]inflight
	wdNext       int64
	lastLeave    time.Time
	Floor        int // minimum of distinct non-trivial cases (set by the driver; used when the watchdog ends the run)
	evals        int64
	distinct     map[uint64]struct{}
	samples      []any
	maxSamples   int
	counters     map[string]int64
	violClasses  map[string]string // class -> replay path
	known        map[string]int64  // finding id -> occurrences
	knownText    map[string]string
	inconclusive []string
	notes        []string
	Assumptions  []string
	Explanation  string
	Exhaustive   bool
	quiet        bool
	ReplayOnly   bool
	Extra        map[string]any // additional coverage keys (level-specific)
}

// NoJobWatch: set by checks whose jobs supervise child processes with their own (logical) budgets (C08).
var NoJobWatch bool

// currentRun: the run of this process (there is one), for the job registration of Parallel.
var currentRun *Run

func NewRun(prop, tier string, seed int64) *Run {
	r := newRun(prop, tier, seed)
	currentRun = r
	return r
}

func newRun(prop, tier string, seed int64) *Run {
	return &Run{Prop: prop, Tier: tier, Seed: seed, Level: "exploration", start: time.Now(),
		distinct: map[uint64]struct{}{}, counters: map[string]int64{}, violClasses: map[string]string{},
		known: map[string]int64{}, knownText: map[string]string{}, maxSamples: 6}
}

func Hash(s string) uint64 {
	h := fnv.New64a()
	h.Write([]byte(s))
	return h.Sum64()
}

// Eval counts one observed execution (call of the code under test through a monitor).
func (r *Run) Eval(n int) {
	r.mu.Lock()
	r.evals += int64(n)
	r.mu.Unlock()
}

// NonTrivial records one case that satisfies the property's non-triviality rule; key is its canonical text.
func (r *Run) NonTrivial(key string) {
	h := Hash(key)
	r.mu.Lock()
	r.distinct[h] = struct{}{}
	r.mu.Unlock()
}

func (r *Run) Count(name string, n int64) {
	r.mu.Lock()
	r.counters[name] += n
	r.mu.Unlock()
}

func (r *Run) Max(name string, v int64) {
	r.mu.Lock()
	if v > r.counters[name] {
		r.counters[name] = v
	}
	r.mu.Unlock()
}

func (r *Run) Counter(name string) int64 {
	r.mu.Lock()
	defer r.mu.Unlock()
	return r.counters[name]
}

func (r *Run) Sample(s any) {
	r.mu.Lock()
	if len(r.samples) < r.maxSamples {
		r.samples = append(r.samples, s)
	}
	r.mu.Unlock()
}

// SampleEvery keeps a sample when fewer than max samples are kept and idx hits the stride.
func (r *Run) SampleAt(idx, stride int, s func() any) {
	if stride <= 0 || idx%stride != 0 {
		return
	}
	r.mu.Lock()
	full := len(r.samples) >= r.maxSamples
	r.mu.Unlock()
	if !full {
		r.Sample(s())
	}
}

func (r *Run) Note(format string, a ...any) {
	r.mu.Lock()
	if len(r.notes) < 50 {
		r.notes = append(r.notes, fmt.Sprintf(format, a...))
	}
	r.mu.Unlock()
}

func (r *Run) Inconclusive(format string, a ...any) {
	msg := fmt.Sprintf(format, a...)
	r.mu.Lock()
	if len(r.inconclusive) < 50 {
		r.inconclusive = append(r.inconclusive, msg)
	}
	r.mu.Unlock()
	fmt.Printf("INCONCLUSIVE property=%s %s\n", r.Prop, msg)
}

// Known records that a listed known finding reproduced (id from KNOWN_FINDINGS.txt).
func (r *Run) Known(id string) {
	r.mu.Lock()
	r.known[id]++
	r.mu.Unlock()
}

// Violation records a violation. class groups violations of the same kind: one replay file and one
// VIOLATION line per class. The case is written with expectation and observation.
func (r *Run) Violation(class string, c *Case, expected, observed string) {
	r.mu.Lock()
	r.counters["violations_total"]++
	if _, ok := r.violClasses[class]; ok {
		r.mu.Unlock()
		return
	}
	cc := *c
	cc.Property = r.Prop
	cc.Class = class
	cc.Expected = clip(expected, 20000)
	cc.Observed = clip(observed, 20000)
	dir := filepath.Join(Root, "replays")
	os.MkdirAll(dir, 0o755)
	b, _ := json.MarshalIndent(&cc, "", " ")
	name := fmt.Sprintf("%s-%s-%016x.json", r.Prop, sanitize(class), Hash(string(b)))
	path := filepath.Join(dir, name)
	os.WriteFile(path, b, 0o644)
	r.violClasses[class] = path
	r.mu.Unlock()
	fmt.Printf("VIOLATION property=%s replay=%s\n", r.Prop, path)
	fmt.Printf("  class: %s\n  expected: %s\n  observed: %s\n", class, clip(expected, 600), clip(observed, 600))
}

// Guard runs f; a panic of the code under test is recorded as a violation of the running property (whatever the
// property demands, the call produced neither a result nor an error) instead of killing the harness.
func (r *Run) Guard(c *Case, f func()) {
	id := r.enterCase(c)
	defer r.leaveCase(id)
	defer func() {
		if rec := recover(); rec != nil {
			msg := fmt.Sprint(rec)
			cls := "other"
			switch {
			case strings.Contains(msg, "nil pointer"):
				cls = "nil-dereference"
			case strings.Contains(msg, "index out of range"):
				cls = "index-out-of-range"
			case strings.Contains(msg, "nil map"):
				cls = "nil-map"
			case strings.Contains(msg, "slice bounds"):
				cls = "slice-bounds"
			}
			buf := make([]byte, 4096)
			buf = buf[:runtime.Stack(buf, false)]
			r.Violation("panic-instead-of-a-result:"+cls, c, "a result or an error", "panic: "+msg+"\n"+string(buf))
		}
	}()
	f()
}

// ---- watchdog: a call of the code under test that never returns must not hang the check ----
//
// Every guarded case is registered while it runs. A background goroutine looks at the register every few seconds;
// a case that has been running for WatchdogLimit (wall clock, default 15 minutes - the cases are sized to take
// milliseconds to seconds, so this is a factor 10^3..10^6) is reported as a violation of the running property
// ("neither a result nor an error"), the evidence is written and the process exits 1: a goroutine stuck inside the
// code under test cannot be stopped any other way. Where a logical step budget exists (C08, C19) it fires long
// before this does.
var WatchdogLimit = 15 * time.Minute

type inflight struct { // (Run.lastLeave: when a guarded case last finished)
	c     *Case
	start time.Time
}

func (r *Run) enterCase(c *Case) int64 {
	r.wdMu.Lock()
	defer r.wdMu.Unlock()
	if r.inflight == nil {
		r.inflight = map[int64]inflight{}
		go r.watchdog()
	}
	r.wdNext++
	r.inflight[r.wdNext] = inflight{c, time.Now()}
	return r.wdNext
}

func (r *Run) leaveCase(id int64) {
	r.wdMu.Lock()
	delete(r.inflight, id)
	r.lastLeave = time.Now()
	r.wdMu.Unlock()
}

var blockedHeaderRe = regexp.MustCompile(`^goroutine \d+ \[[^\]]*, (\d+) minutes\]`)
var repoFrameInStackRe = regexp.MustCompile(`(?m)^github\.com/openfga/language/pkg/go/(graph|transformer|utils|validation|gen|errors)[./]`)

// blockedInRepo: a goroutine that the Go scheduler has had parked for a minute or more (waiting for a lock, a
// channel, a condition) with a frame of the repository on its stack - a call of the code under test that waits for
// something nobody will deliver. This is a state of the program, not an elapsed-time guess.
func blockedInRepo() string {
	buf := make([]byte, 8<<20)
	buf = buf[:runtime.Stack(buf, true)]
	for _, g := range strings.Split(string(buf), "\n\n") {
		if blockedHeaderRe.MatchString(g) && repoFrameInStackRe.MatchString(g) {
			return clip(g, 3000)
		}
	}
	return ""
}

func (r *Run) watchdog() {
	for {
		time.Sleep(5 * time.Second)
		var stuck *Case
		var age time.Duration
		r.wdMu.Lock()
		for _, f := range r.inflight {
			if d := time.Since(f.start); d > WatchdogLimit && d > age {
				stuck, age = f.c, d
			}
		}
		var oldest time.Duration
		var oldestCase *Case
		for _, f := range r.inflight {
			if d := time.Since(f.start); d > oldest {
				oldest, oldestCase = d, f.c
			}
		}
		idle := time.Since(r.lastLeave)
		r.wdMu.Unlock()
		if stuck == nil && oldestCase != nil && oldest > 70*time.Second {
			if g := blockedInRepo(); g != "" {
				r.Violation("call-blocked-in-repository-code", oldestCase, "a result or an error", "a goroutine has been parked for a minute or more inside the code under test (the case shown is the oldest one in flight):\n"+g)
				r.Note("blocked call: the run was cut short, counts are partial")
				code := r.Finish(r.Floor)
				if code == 0 {
					code = 1
				}
				os.Exit(code)
			}
			// nothing has finished for three minutes and a case is five minutes old (cases take milliseconds to
			// seconds; everything else of the run is done): the same verdict as the 15-minute limit, sooner
			if oldest > 5*time.Minute && idle > 3*time.Minute {
				stuck, age = oldestCase, oldest
			}
		}
		if stuck != nil {
			r.Violation("call-did-not-return", stuck, "a result or an error", fmt.Sprintf("the case has been running for %s (wall-clock watchdog; such cases take milliseconds to seconds)", age.Round(time.Second)))
			r.Note("watchdog fired: the run was cut short, counts are partial")
			code := r.Finish(r.Floor)
			if code == 0 {
				code = 1
			}
			os.Exit(code)
		}
	}
}

func (r *Run) NumViolations() int {
	r.mu.Lock()
	defer r.mu.Unlock()
	return len(r.violClasses)
}

func clip(s string, n int) string {
	if len(s) > n {
		return s[:n] + "…(clipped)"
	}
	return s
}

func sanitize(s string) string {
	var sb strings.Builder
	for _, c := range s {
		if c >= 'a' && c <= 'z' || c >= 'A' && c <= 'Z' || c >= '0' && c <= '9' || c == '-' || c == '_' {
			sb.WriteRune(c)
		} else {
			sb.WriteByte('_')
		}
		if sb.Len() > 60 {
			break
		}
	}
	return sb.String()
}

// LoadCase reads a replay file.
func LoadCase(path string) (*Case, error) {
	b, err := os.ReadFile(path)
	if err != nil {
		return nil, err
	}
	c := &Case{}
	if err := json.Unmarshal(b, c); err != nil {
		return nil, err
	}
	return c, nil
}

// ---- known findings file ----

type Finding struct {
	Fixed    bool
	Property string
	ID       string
	Witness  string
	Text     string
}

func LoadFindings() []Finding {
	f, err := os.Open(filepath.Join(Root, "KNOWN_FINDINGS.txt"))
	if err != nil {
		return nil
	}
	defer f.Close()
	var out []Finding
	sc := bufio.NewScanner(f)
	sc.Buffer(make([]byte, 1<<20), 1<<20)
	for sc.Scan() {
		line := strings.TrimSpace(sc.Text())
		if line == "" || strings.HasPrefix(line, "#") {
			continue
		}
		var fd Finding
		switch {
		case strings.HasPrefix(line, "finding:"):
			line = strings.TrimSpace(strings.TrimPrefix(line, "finding:"))
		case strings.HasPrefix(line, "fixed:"):
			fd.Fixed = true
			line = strings.TrimSpace(strings.TrimPrefix(line, "fixed:"))
		default:
			continue
		}
		rest := []string{}
		for _, w := range strings.Fields(line) {
			switch {
			case strings.HasPrefix(w, "property=") && fd.Property == "":
				fd.Property = strings.TrimPrefix(w, "property=")
			case strings.HasPrefix(w, "id=") && fd.ID == "":
				fd.ID = strings.TrimPrefix(w, "id=")
			case strings.HasPrefix(w, "witness=") && fd.Witness == "":
				fd.Witness = strings.TrimPrefix(w, "witness=")
			default:
				rest = append(rest, w)
			}
		}
		fd.Text = strings.Join(rest, " ")
		out = append(out, fd)
	}
	return out
}

// FindingListed tells whether finding id is listed (not fixed) for the run's property.
func (r *Run) FindingListed(id string) (Finding, bool) {
	for _, f := range LoadFindings() {
		if !f.Fixed && f.ID == id && strings.Contains(f.Property, r.Prop) {
			return f, true
		}
	}
	return Finding{}, false
}

// ---- finish: evidence ----

type evidence struct {
	PropertyID  string         `json:"property_id"`
	Tier        string         `json:"tier"`
	Seed        int64          `json:"seed"`
	Level       string         `json:"level"`
	Coverage    map[string]any `json:"coverage"`
	Assumptions []string       `json:"assumptions,omitempty"`
	WallS       float64        `json:"wall_s"`
	Violations  int            `json:"violations"`
}

// Finish writes the evidence file, prints the summary and returns the process exit code.
// minNonTrivial is the floor under which the run is declared inconclusive (harness failure: exit 2
// when nothing at all was observed).
func (r *Run) Finish(minNonTrivial int) int {
	r.mu.Lock()
	defer r.mu.Unlock()
	cov := map[string]any{
		"evaluations":         r.evals,
		"distinct_nontrivial": len(r.distinct),
		"rule":                r.Rule,
		"samples":             r.samples,
	}
	if r.Exhaustive {
		cov["exhaustive"] = true
	}
	if r.Explanation != "" {
		cov["explanation"] = r.Explanation
	}
	keys := make([]string, 0, len(r.counters))
	for k := range r.counters {
		keys = append(keys, k)
	}
	sort.Strings(keys)
	obs := map[string]int64{}
	for _, k := range keys {
		obs[k] = r.counters[k]
	}
	cov["observed"] = obs
	if len(r.known) > 0 {
		cov["known_findings_reproduced"] = r.known
	}
	if len(r.inconclusive) > 0 {
		cov["inconclusive"] = r.inconclusive
	}
	if len(r.notes) > 0 {
		cov["notes"] = r.notes
	}
	if len(r.samples) == 0 {
		cov["samples"] = []any{"(no sample recorded)"}
	}
	for k, v := range r.Extra {
		cov[k] = v
	}
	ev := evidence{PropertyID: r.Prop, Tier: r.Tier, Seed: r.Seed, Level: r.Level, Coverage: cov,
		Assumptions: r.Assumptions, WallS: time.Since(r.start).Seconds(), Violations: len(r.violClasses)}
	b, _ := json.MarshalIndent(&ev, "", " ")
	os.MkdirAll(filepath.Join(Root, "evidence"), 0o755)
	os.WriteFile(filepath.Join(Root, "evidence", r.Prop+".json"), append(b, '\n'), 0o644)

	// known findings lines
	fids := make([]string, 0, len(r.known))
	for id := range r.known {
		fids = append(fids, id)
	}
	sort.Strings(fids)
	for _, id := range fids {
		text := id
		for _, f := range LoadFindings() {
			if f.ID == id && !f.Fixed {
				text = id + " " + f.Text
			}
		}
		fmt.Printf("KNOWN-FINDING: property=%s %s (reproduced %d times in this run)\n", r.Prop, text, r.known[id])
	}
	fmt.Printf("SUMMARY property=%s tier=%s seed=%d evaluations=%d distinct_nontrivial=%d violations=%d inconclusive=%d wall=%.1fs\n",
		r.Prop, r.Tier, r.Seed, r.evals, len(r.distinct), len(r.violClasses), len(r.inconclusive), time.Since(r.start).Seconds())
	for _, k := range keys {
		fmt.Printf("  observed %-40s %d\n", k, r.counters[k])
	}
	if len(r.violClasses) > 0 {
		return 1
	}
	if r.evals == 0 {
		fmt.Printf("HARNESS-ERROR property=%s the monitors observed nothing\n", r.Prop)
		return 2
	}
	if len(r.distinct) < minNonTrivial {
		fmt.Printf("INCONCLUSIVE property=%s only %d distinct non-trivial cases (floor %d)\n", r.Prop, len(r.distinct), minNonTrivial)
	}
	return 0
}

// ---- deterministic parallel case loop ----

// Rng returns the PRNG of case idx of stream: independent of scheduling.
func (r *Run) Rng(stream string, idx int) *rand.Rand {
	h := Hash(fmt.Sprintf("%d/%s/%d", r.Seed, stream, idx))
	return rand.New(rand.NewSource(int64(h)))
}

// Parallel runs f(idx) for idx in [0,n) on all cores.
func Parallel(n int, f func(idx int)) {
	workers := runtime.NumCPU()
	if workers > n {
		workers = n
	}
	if workers < 1 {
		workers = 1
	}
	var wg sync.WaitGroup
	ch := make(chan int, 256)
	for w := 0; w < workers; w++ {
		wg.Add(1)
		go func() {
			defer wg.Done()
			for i := range ch {
				// every job is known to the watchdog, whether or not the check wraps its cases in Guard: a job that
				// never comes back ends the run with a violation naming the job instead of hanging the check
				if cur := currentRun; cur != nil && !NoJobWatch {
					id := cur.enterCase(&Case{Kind: "parallel-job", Extra: map[string]string{"job": fmt.Sprint(i), "note": "the workload is a pure function of VERIF_SEED and the job index"}})
					f(i)
					cur.leaveCase(id)
				} else {
					f(i)
				}
			}
		}()
	}
	for i := 0; i < n; i++ {
		ch <- i
	}
	close(ch)
	wg.Wait()
}

// Tiered picks the case count of the tier.
func (r *Run) N(quick, thorough int) int {
	if r.Tier == "thorough" {
		return thorough
	}
	return quick
}
