// Package ref holds the reference models (oracles). They are written from the property
// statements, independently of the implementation's algorithms.
package ref

import (
	"fmt"
	"sort"
	"strings"

	openfgav1 "github.com/openfga/api/proto/openfga/v1"
)

// R1: reference (weighted) authorization-model graph.

type Kind int

const (
	KType Kind = iota
	KWild
	KRel
	KUnion
	KInter
	KExcl
)

const Inf = 1<<31 - 1

type Edge struct {
	From, To *Node
	Hop      bool   // direct or TTU edge: consumes a tuple
	Type     string // direct, rewrite, computed, ttu
	Tupleset string // "type#tupleset" for TTU edges
	Conds    []string
}

type Node struct {
	ID       string // operators: "<type#rel>/op<k>", k = pre-order number inside the relation
	Kind     Kind
	Operands [][]*Edge // relation: exactly one operand; operator: one per child
	// results of Analyse
	R  map[string]bool // terminal types that reach the node
	W  map[string]int  // weight per type of R
	WC map[string]bool // wildcard types reachable
}

func (n *Node) IsOp() bool { return n.Kind == KUnion || n.Kind == KInter || n.Kind == KExcl }

func (n *Node) Label() string {
	switch n.Kind {
	case KUnion:
		return "union"
	case KInter:
		return "intersection"
	case KExcl:
		return "exclusion"
	}
	return n.ID
}

// Edges lists the out-edges in creation order, each once.
func (n *Node) Edges() []*Edge {
	var out []*Edge
	seen := map[*Edge]bool{}
	for _, op := range n.Operands {
		for _, e := range op {
			if !seen[e] {
				seen[e] = true
				out = append(out, e)
			}
		}
	}
	return out
}

type Graph struct {
	Nodes   map[string]*Node
	Order   []string // creation order
	Invalid string   // model cannot be turned into a weighted graph (TTU rules)
	Plain   bool     // plain-graph mode: an unusable TTU parent contributes no edge instead of an error
	Reach   bool     // Analyse got as far as the reach sets (they are valid even when the verdict is negative)
	model   *openfgav1.AuthorizationModel
}

func (g *Graph) get(id string, k Kind) *Node {
	if n, ok := g.Nodes[id]; ok {
		return n
	}
	n := &Node{ID: id, Kind: k}
	g.Nodes[id] = n
	g.Order = append(g.Order, id)
	return n
}

func hasRel(m *openfgav1.AuthorizationModel, t, r string) bool {
	for _, td := range m.GetTypeDefinitions() {
		if td.GetType() == t {
			if _, ok := td.GetRelations()[r]; ok {
				return true
			}
		}
	}
	return false
}

// Build constructs the reference graph of a model.
func Build(m *openfgav1.AuthorizationModel, plain bool) *Graph {
	g := &Graph{Nodes: map[string]*Node{}, model: m, Plain: plain}
	tds := append([]*openfgav1.TypeDefinition{}, m.GetTypeDefinitions()...)
	sort.SliceStable(tds, func(i, j int) bool { return tds[i].GetType() < tds[j].GetType() })
	for _, td := range tds {
		g.get(td.GetType(), KType)
		var rels []string
		for r := range td.GetRelations() {
			rels = append(rels, r)
		}
		sort.Strings(rels)
		for _, r := range rels {
			rn := g.get(td.GetType()+"#"+r, KRel)
			cnt := 0
			ops := g.operand(rn, td, r, td.GetRelations()[r], td.GetType()+"#"+r, &cnt)
			if g.Invalid != "" {
				return g
			}
			rn.Operands = append(rn.Operands, ops)
		}
	}
	return g
}

// operand returns the edges that represent this userset as one operand of parent.
func (g *Graph) operand(parent *Node, td *openfgav1.TypeDefinition, rel string, us *openfgav1.Userset, path string, cnt *int) []*Edge {
	switch rw := us.GetUserset().(type) {
	case *openfgav1.Userset_This:
		var out []*Edge
		for _, ref := range td.GetMetadata().GetRelations()[rel].GetDirectlyRelatedUserTypes() {
			var tgt *Node
			switch {
			case ref.GetRelationOrWildcard() == nil:
				tgt = g.get(ref.GetType(), KType)
			case ref.GetWildcard() != nil:
				tgt = g.get(ref.GetType()+":*", KWild)
			default:
				tgt = g.get(ref.GetType()+"#"+ref.GetRelation(), KRel)
			}
			c := ref.GetCondition()
			if c == "" {
				c = "none"
			}
			found := false
			for _, e := range append(parent.Edges(), out...) {
				if e.To == tgt && e.Type == "direct" {
					has := false
					for _, x := range e.Conds {
						if x == c {
							has = true
						}
					}
					if !has {
						e.Conds = append(e.Conds, c)
					}
					if !found {
						inOut := false
						for _, o := range out {
							if o == e {
								inOut = true
							}
						}
						if !inOut {
							out = append(out, e)
						}
					}
					found = true
				}
			}
			if !found {
				out = append(out, &Edge{From: parent, To: tgt, Hop: true, Type: "direct", Conds: []string{c}})
			}
		}
		return out
	case *openfgav1.Userset_ComputedUserset:
		tgt := g.get(td.GetType()+"#"+rw.ComputedUserset.GetRelation(), KRel)
		et := "rewrite"
		if parent.Kind == KRel {
			et = "computed"
		}
		return []*Edge{{From: parent, To: tgt, Type: et}}
	case *openfgav1.Userset_TupleToUserset:
		ts := rw.TupleToUserset.GetTupleset().GetRelation()
		cr := rw.TupleToUserset.GetComputedUserset().GetRelation()
		md, ok := td.GetMetadata().GetRelations()[ts]
		if !ok || len(md.GetDirectlyRelatedUserTypes()) == 0 {
			if g.Plain {
				return nil
			}
			g.Invalid = "ttu tupleset without restrictions"
			return nil
		}
		var out []*Edge
		for _, ref := range md.GetDirectlyRelatedUserTypes() {
			if !hasRel(g.model, ref.GetType(), cr) {
				if g.Plain {
					continue
				}
				g.Invalid = "ttu parent lacks computed relation"
				return nil
			}
			tgt := g.get(ref.GetType()+"#"+cr, KRel)
			lbl := td.GetType() + "#" + ts
			found := false
			for _, e := range append(parent.Edges(), out...) {
				if e.To == tgt && e.Type == "ttu" && e.Tupleset == lbl {
					if !found {
						inOut := false
						for _, o := range out {
							if o == e {
								inOut = true
							}
						}
						if !inOut {
							out = append(out, e)
						}
					}
					found = true
				}
			}
			if !found {
				out = append(out, &Edge{From: parent, To: tgt, Hop: true, Type: "ttu", Tupleset: lbl})
			}
		}
		return out
	}
	var k Kind
	var children []*openfgav1.Userset
	switch rw := us.GetUserset().(type) {
	case *openfgav1.Userset_Union:
		k, children = KUnion, rw.Union.GetChild()
	case *openfgav1.Userset_Intersection:
		k, children = KInter, rw.Intersection.GetChild()
	case *openfgav1.Userset_Difference:
		k, children = KExcl, []*openfgav1.Userset{rw.Difference.GetBase(), rw.Difference.GetSubtract()}
	default:
		g.Invalid = "empty userset"
		return nil
	}
	*cnt++
	op := g.get(fmt.Sprintf("%s/op%d", path, *cnt), k)
	for _, ch := range children {
		es := g.operand(op, td, rel, ch, path, cnt)
		if g.Invalid != "" {
			return nil
		}
		op.Operands = append(op.Operands, es)
	}
	return []*Edge{{From: parent, To: op, Type: "rewrite"}}
}

// ---- analysis ----

func (g *Graph) sccs(edgeOK func(*Edge) bool, nodeOK func(*Node) bool) map[*Node]int {
	idx := 0
	index := map[*Node]int{}
	low := map[*Node]int{}
	on := map[*Node]bool{}
	var st []*Node
	comp := map[*Node]int{}
	nc := 0
	var sc func(v *Node)
	sc = func(v *Node) {
		index[v] = idx
		low[v] = idx
		idx++
		st = append(st, v)
		on[v] = true
		for _, e := range v.Edges() {
			if !edgeOK(e) || !nodeOK(e.To) {
				continue
			}
			w := e.To
			if _, ok := index[w]; !ok {
				sc(w)
				if low[w] < low[v] {
					low[v] = low[w]
				}
			} else if on[w] && index[w] < low[v] {
				low[v] = index[w]
			}
		}
		if low[v] == index[v] {
			for {
				w := st[len(st)-1]
				st = st[:len(st)-1]
				on[w] = false
				comp[w] = nc
				if w == v {
					break
				}
			}
			nc++
		}
	}
	for _, id := range g.Order {
		n := g.Nodes[id]
		if !nodeOK(n) {
			continue
		}
		if _, ok := index[n]; !ok {
			sc(n)
		}
	}
	return comp
}

// SCCs exposes the strongly connected components of the selected sub-graph (node -> component number).
func (g *Graph) SCCs(edgeOK func(*Edge) bool, nodeOK func(*Node) bool) map[*Node]int {
	return g.sccs(edgeOK, nodeOK)
}

// Cyclic returns the nodes lying on a cycle of the selected sub-graph (SCC of size > 1 or self loop).
func (g *Graph) Cyclic(edgeOK func(*Edge) bool, nodeOK func(*Node) bool) map[*Node]bool {
	comp := g.sccs(edgeOK, nodeOK)
	size := map[int]int{}
	for _, c := range comp {
		size[c]++
	}
	out := map[*Node]bool{}
	for n, c := range comp {
		if size[c] > 1 {
			out[n] = true
		}
		for _, e := range n.Edges() {
			if edgeOK(e) && e.To == n {
				out[n] = true
			}
		}
	}
	return out
}

type Verdict struct {
	OK     bool
	Reason string
}

func allNodes(*Node) bool { return true }
func allEdges(*Edge) bool { return true }

// HasTupleCycle tells whether some cycle exists at all (only meaningful for well-founded models: then every cycle has a hop).
func (g *Graph) HasCycle() bool {
	return len(g.Cyclic(allEdges, allNodes)) > 0
}

// Analyse decides well-foundedness and, when well-founded, computes reach sets, weights and wildcards.
func (g *Graph) Analyse() Verdict {
	if g.Invalid != "" {
		return Verdict{false, g.Invalid}
	}
	// 1. a cycle of rewrites that needs no tuple
	if c := g.Cyclic(func(e *Edge) bool { return !e.Hop }, allNodes); len(c) > 0 {
		return Verdict{false, "model cycle"}
	}
	// 2. intersection / exclusion on a cycle
	cyc := g.Cyclic(allEdges, allNodes)
	for n := range cyc {
		if n.Kind == KInter || n.Kind == KExcl {
			return Verdict{false, "constraint tuple cycle"}
		}
	}
	// reach sets: least fixpoint
	for _, n := range g.Nodes {
		n.R = map[string]bool{}
		n.WC = map[string]bool{}
		if n.Kind == KType {
			n.R[n.ID] = true
		}
		if n.Kind == KWild {
			n.R[strings.TrimSuffix(n.ID, ":*")] = true
		}
	}
	opR := func(op []*Edge) map[string]bool {
		r := map[string]bool{}
		for _, e := range op {
			for t := range e.To.R {
				r[t] = true
			}
		}
		return r
	}
	for changed := true; changed; {
		changed = false
		for _, id := range g.Order {
			n := g.Nodes[id]
			if n.Kind == KType || n.Kind == KWild {
				continue
			}
			nr := map[string]bool{}
			switch n.Kind {
			case KRel, KUnion:
				for _, op := range n.Operands {
					for t := range opR(op) {
						nr[t] = true
					}
				}
			case KInter:
				for i, op := range n.Operands {
					r := opR(op)
					if i == 0 {
						nr = r
					} else {
						for t := range nr {
							if !r[t] {
								delete(nr, t)
							}
						}
					}
				}
			case KExcl:
				if len(n.Operands) > 0 {
					nr = opR(n.Operands[0])
				}
			}
			if len(nr) != len(n.R) {
				changed = true
			}
			n.R = nr
		}
	}
	g.Reach = true
	for _, id := range g.Order {
		n := g.Nodes[id]
		if n.Kind == KInter && len(n.R) == 0 {
			return Verdict{false, "empty intersection"}
		}
	}
	for _, id := range g.Order {
		n := g.Nodes[id]
		if (n.Kind == KRel || n.IsOp()) && len(n.R) == 0 {
			return Verdict{false, "relation without terminal type"}
		}
	}
	// weights per type: longest walk counting hops inside the sub-graph that carries the type
	types := map[string]bool{}
	for _, n := range g.Nodes {
		for t := range n.R {
			types[t] = true
		}
	}
	for _, n := range g.Nodes {
		n.W = map[string]int{}
	}
	for t := range types {
		nodeOK := func(n *Node) bool { return n.R[t] }
		edgeOK := func(e *Edge) bool { return e.From.R[t] && e.To.R[t] }
		cyc := g.Cyclic(edgeOK, nodeOK)
		memo := map[*Node]int{}
		var lp func(n *Node) int
		lp = func(n *Node) int {
			if v, ok := memo[n]; ok {
				return v
			}
			if cyc[n] {
				memo[n] = Inf
				return Inf
			}
			if n.Kind == KType || n.Kind == KWild {
				memo[n] = 0
				return 0
			}
			best := -1
			for _, e := range n.Edges() {
				if !edgeOK(e) {
					continue
				}
				v := lp(e.To)
				if v != Inf && e.Hop {
					v++
				}
				if v > best {
					best = v
				}
			}
			memo[n] = best
			return best
		}
		for _, n := range g.Nodes {
			if n.R[t] && n.Kind != KType && n.Kind != KWild {
				n.W[t] = lp(n)
			}
		}
	}
	// wildcards: plain reachability
	for _, id := range g.Order {
		n := g.Nodes[id]
		seen := map[*Node]bool{}
		var dfs func(x *Node)
		dfs = func(x *Node) {
			if seen[x] {
				return
			}
			seen[x] = true
			if x.Kind == KWild {
				n.WC[strings.TrimSuffix(x.ID, ":*")] = true
			}
			for _, e := range x.Edges() {
				dfs(e.To)
			}
		}
		dfs(n)
	}
	return Verdict{true, ""}
}

// EdgeWeights is the weight map an edge must carry: its target's weights, plus one for a hop.
func (e *Edge) Weights() map[string]int {
	ew := map[string]int{}
	for t, v := range e.To.W {
		if v != Inf && e.Hop {
			v++
		}
		ew[t] = v
	}
	if e.To.Kind == KType {
		ew[e.To.ID] = 1
	}
	if e.To.Kind == KWild {
		ew[strings.TrimSuffix(e.To.ID, ":*")] = 1
	}
	return ew
}

// Wildcards an edge must carry: those of its target ({T} into T:*).
func (e *Edge) Wildcards() map[string]bool { return e.To.WC }

func FmtW(m map[string]int) string {
	ks := make([]string, 0, len(m))
	for k := range m {
		ks = append(ks, k)
	}
	sort.Strings(ks)
	var sb strings.Builder
	for _, k := range ks {
		if m[k] == Inf {
			fmt.Fprintf(&sb, "%s:inf ", k)
		} else {
			fmt.Fprintf(&sb, "%s:%d ", k, m[k])
		}
	}
	return strings.TrimSpace(sb.String())
}

func FmtS(m map[string]bool) string {
	ks := make([]string, 0, len(m))
	for k := range m {
		ks = append(ks, k)
	}
	sort.Strings(ks)
	return strings.Join(ks, ",")
}
