package ref

import (
	"fmt"
	"sort"
	"strings"

	"github.com/openfga/language/pkg/go/graph"
)

// Diff is one disagreement between the real weighted graph and the reference graph.
type Diff struct {
	Aspect string // structure | weights | wildcards
	Msg    string
}

var etName = map[graph.EdgeType]string{graph.DirectEdge: "direct", graph.RewriteEdge: "rewrite", graph.TTUEdge: "ttu", graph.ComputedEdge: "computed"}

func nodeTypeOf(k Kind) graph.NodeType {
	switch k {
	case KType:
		return graph.SpecificType
	case KWild:
		return graph.SpecificTypeWildcard
	case KRel:
		return graph.SpecificTypeAndRelation
	}
	return graph.OperatorNode
}

func setOf(xs []string) (map[string]bool, bool) {
	m := map[string]bool{}
	dup := false
	for _, x := range xs {
		if m[x] {
			dup = true
		}
		m[x] = true
	}
	return m, dup
}

func sameSet(a, b map[string]bool) bool {
	if len(a) != len(b) {
		return false
	}
	for k := range a {
		if !b[k] {
			return false
		}
	}
	return true
}

func sameW(a, b map[string]int) bool {
	if len(a) != len(b) {
		return false
	}
	for k, v := range a {
		if w, ok := b[k]; !ok || w != v {
			return false
		}
	}
	return true
}

// CompareWeighted walks the real graph and the reference graph simultaneously from every relation
// node, matching operator nodes by position, and reports every disagreement. The reference graph
// must have been analysed (Analyse().OK) when weights/wildcards are to be compared; with
// structureOnly the result sets are ignored.
func CompareWeighted(real *graph.WeightedAuthorizationModelGraph, g *Graph, structureOnly bool) []Diff {
	var diffs []Diff
	add := func(aspect, format string, a ...any) {
		if len(diffs) < 40 {
			diffs = append(diffs, Diff{aspect, fmt.Sprintf(format, a...)})
		}
	}
	rnodes := real.GetNodes()
	redges := real.GetEdges()
	mapped := map[string]string{} // real unique label -> ref id
	var walk func(n *Node, realID string)
	checkNode := func(n *Node, realID string) {
		rn := rnodes[realID]
		// the accessor methods agree with the maps they read
		if byID, ok := real.GetNodeByID(realID); !ok || byID != rn {
			add("structure", "GetNodeByID(%s) does not return the node of GetNodes()", n.ID)
		}
		if es, ok := real.GetEdgesFromNode(rn); ok != (len(redges[realID]) > 0 || redges[realID] != nil) || len(es) != len(redges[realID]) {
			add("structure", "GetEdgesFromNode(%s) returns %d edges, GetEdges() has %d", n.ID, len(es), len(redges[realID]))
		}
		for k, w := range rn.GetWeights() {
			if got, ok := rn.GetWeight(k); !ok || got != w {
				add("weights", "node %s: GetWeight(%s) = %d,%v but GetWeights() has %d", n.ID, k, got, ok, w)
			}
		}
		if _, ok := rn.GetWeight("no such type"); ok {
			add("weights", "node %s: GetWeight of an unknown type answers ok", n.ID)
		}
		if rn.GetNodeType() != nodeTypeOf(n.Kind) {
			add("structure", "node %s: node type %d, want %d", n.ID, rn.GetNodeType(), nodeTypeOf(n.Kind))
		}
		if rn.GetLabel() != n.Label() {
			add("structure", "node %s: label %q, want %q", n.ID, rn.GetLabel(), n.Label())
		}
		if rn.GetUniqueLabel() != realID {
			add("structure", "node %s: unique label %q differs from its map key %q", n.ID, rn.GetUniqueLabel(), realID)
		}
		if structureOnly {
			return
		}
		// weights
		for k := range rn.GetWeights() {
			if strings.HasPrefix(k, "R#") {
				add("weights", "node %s: cycle placeholder %q visible", n.ID, k)
			}
		}
		if n.Kind == KType || n.Kind == KWild {
			if len(rn.GetWeights()) != 0 {
				add("weights", "terminal node %s carries weights [%s]", n.ID, FmtW(rn.GetWeights()))
			}
		} else {
			if len(rn.GetWeights()) == 0 {
				add("weights", "node %s: empty weight map", n.ID)
			}
			if !sameW(rn.GetWeights(), n.W) {
				add("weights", "node %s: weights [%s], want [%s]", n.ID, FmtW(rn.GetWeights()), FmtW(n.W))
			}
		}
		// wildcards
		ws, dup := setOf(rn.GetWildcards())
		if dup {
			add("wildcards", "node %s: duplicate in wildcard list %v", n.ID, rn.GetWildcards())
		}
		if !sameSet(ws, n.WC) {
			add("wildcards", "node %s: wildcards [%s], want [%s]", n.ID, FmtS(ws), FmtS(n.WC))
		}
	}
	walk = func(n *Node, realID string) {
		if prev, ok := mapped[realID]; ok {
			if prev != n.ID {
				add("structure", "real node %s matches both %s and %s", realID, prev, n.ID)
			}
			return
		}
		mapped[realID] = n.ID
		checkNode(n, realID)
		res := redges[realID]
		fes := n.Edges()
		if len(res) != len(fes) {
			add("structure", "node %s: %d out-edges, want %d (%s)", n.ID, len(res), len(fes), describeEdges(fes))
			return
		}
		for i, fe := range fes {
			re := res[i]
			if re.GetFrom() == nil || re.GetTo() == nil {
				add("structure", "node %s edge #%d: nil endpoint", n.ID, i)
				continue
			}
			if re.GetFrom().GetUniqueLabel() != realID {
				add("structure", "node %s edge #%d: from is %s", n.ID, i, re.GetFrom().GetUniqueLabel())
			}
			// one node per label: the endpoints of an edge are the very node objects the graph holds under their labels
			if re.GetFrom() != rnodes[re.GetFrom().GetUniqueLabel()] {
				add("structure", "node %s edge #%d: its from-node %s is a second object, not the node GetNodes() holds under that label", n.ID, i, re.GetFrom().GetUniqueLabel())
			}
			if re.GetTo() != rnodes[re.GetTo().GetUniqueLabel()] {
				add("structure", "node %s edge #%d: its to-node %s is a second object, not the node GetNodes() holds under that label (two nodes for one label)", n.ID, i, re.GetTo().GetUniqueLabel())
			}
			if etName[re.GetEdgeType()] != fe.Type {
				add("structure", "node %s edge #%d -> %s: edge type %s, want %s", n.ID, i, fe.To.ID, etName[re.GetEdgeType()], fe.Type)
			}
			if re.GetTuplesetRelation() != fe.Tupleset {
				add("structure", "node %s edge #%d -> %s: tupleset label %q, want %q", n.ID, i, fe.To.ID, re.GetTuplesetRelation(), fe.Tupleset)
			}
			if fe.Type == "direct" {
				if strings.Join(re.GetConditions(), ",") != strings.Join(fe.Conds, ",") {
					add("structure", "node %s edge #%d -> %s: conditions %v, want %v", n.ID, i, fe.To.ID, re.GetConditions(), fe.Conds)
				}
			} else if fe.Type != "ttu" {
				if strings.Join(re.GetConditions(), ",") != "none" {
					add("structure", "node %s edge #%d -> %s: conditions %v on a %s edge, want [none]", n.ID, i, fe.To.ID, re.GetConditions(), fe.Type)
				}
			}
			toID := re.GetTo().GetUniqueLabel()
			if _, ok := rnodes[toID]; !ok {
				add("structure", "node %s edge #%d: target %s is not in the node map", n.ID, i, toID)
				continue
			}
			if fe.To.IsOp() {
				if re.GetTo().GetNodeType() != graph.OperatorNode {
					add("structure", "node %s edge #%d: target %s, want operator %s", n.ID, i, toID, fe.To.Label())
					continue
				}
				walk(fe.To, toID)
			} else {
				if toID != fe.To.ID {
					add("structure", "node %s edge #%d: target %s, want %s", n.ID, i, toID, fe.To.ID)
					continue
				}
			}
			if structureOnly {
				continue
			}
			for k := range re.GetWeights() {
				if strings.HasPrefix(k, "R#") {
					add("weights", "edge %s -> %s: cycle placeholder %q visible", n.ID, fe.To.ID, k)
				}
			}
			for k, w := range re.GetWeights() {
				if got, ok := re.GetWeight(k); !ok || got != w {
					add("weights", "edge %s -> %s: GetWeight(%s) = %d,%v but GetWeights() has %d", n.ID, fe.To.ID, k, got, ok, w)
				}
			}
			if !sameW(re.GetWeights(), fe.Weights()) {
				add("weights", "edge %s #%d -> %s (%s): weights [%s], want [%s]", n.ID, i, fe.To.ID, fe.Type, FmtW(re.GetWeights()), FmtW(fe.Weights()))
			}
			ws, dup := setOf(re.GetWildcards())
			if dup {
				add("wildcards", "edge %s -> %s: duplicate in wildcard list %v", n.ID, fe.To.ID, re.GetWildcards())
			}
			if !sameSet(ws, fe.Wildcards()) {
				add("wildcards", "edge %s #%d -> %s (%s): wildcards [%s], want [%s]", n.ID, i, fe.To.ID, fe.Type, FmtS(ws), FmtS(fe.Wildcards()))
			}
		}
	}
	for _, id := range g.Order {
		n := g.Nodes[id]
		if n.IsOp() {
			continue
		}
		if _, ok := rnodes[id]; !ok {
			add("structure", "node %s missing", id)
			continue
		}
		walk(n, id)
	}
	if len(rnodes) != len(g.Nodes) {
		var extra []string
		for id := range rnodes {
			if _, ok := mapped[id]; !ok {
				extra = append(extra, id)
			}
		}
		sort.Strings(extra)
		add("structure", "%d nodes, want %d; unmatched real nodes: %v", len(rnodes), len(g.Nodes), extra)
	}
	for from := range redges {
		if _, ok := rnodes[from]; !ok {
			add("structure", "edge list for unknown node %s", from)
		} else if _, ok := mapped[from]; !ok && len(redges[from]) > 0 {
			add("structure", "edges from unmatched node %s", from)
		}
	}
	return diffs
}

func describeEdges(es []*Edge) string {
	var p []string
	for _, e := range es {
		p = append(p, e.Type+"->"+e.To.ID)
	}
	return strings.Join(p, " ")
}

// CanonWeighted renders the real graph canonically (operators named by position) so that two builds can be
// compared for equality without the reference model: used by the determinism checks.
func CanonWeighted(real *graph.WeightedAuthorizationModelGraph) string {
	rnodes := real.GetNodes()
	redges := real.GetEdges()
	names := map[string]string{}
	var ids []string
	for id, n := range rnodes {
		if n.GetNodeType() != graph.OperatorNode {
			names[id] = id
			ids = append(ids, id)
		}
	}
	sort.Strings(ids)
	var out []string
	var walk func(id string)
	walk = func(id string) {
		n := rnodes[id]
		wc := append([]string{}, n.GetWildcards()...)
		sort.Strings(wc)
		out = append(out, fmt.Sprintf("N %s type=%d label=%s w=[%s] wc=%v", names[id], n.GetNodeType(), n.GetLabel(), FmtW(n.GetWeights()), wc))
		for i, e := range redges[id] {
			to := e.GetTo().GetUniqueLabel()
			fresh := false
			if _, ok := names[to]; !ok {
				names[to] = fmt.Sprintf("%s.%d", names[id], i)
				fresh = true
			}
			ewc := append([]string{}, e.GetWildcards()...)
			sort.Strings(ewc)
			out = append(out, fmt.Sprintf("E %s #%d -> %s %s ts=%q conds=%v w=[%s] wc=%v", names[id], i, names[to], etName[e.GetEdgeType()], e.GetTuplesetRelation(), e.GetConditions(), FmtW(e.GetWeights()), ewc))
			if fresh {
				walk(to)
			}
		}
	}
	for _, id := range ids {
		walk(id)
	}
	if len(names) != len(rnodes) {
		out = append(out, fmt.Sprintf("UNREACHED NODES %d", len(rnodes)-len(names)))
	}
	return strings.Join(out, "\n")
}

// CompareReach compares only the KEY SETS of the node weight maps with the reach sets of the reference model.
// It is used when the builder accepts a model the reference model rejects for an empty intersection / relation:
// the reach sets are valid there, and C04's "a weight for exactly the user types that can reach it" can still
// be decided (operators are matched by walking as in CompareWeighted).
func CompareReach(real *graph.WeightedAuthorizationModelGraph, g *Graph) []Diff {
	var diffs []Diff
	rnodes := real.GetNodes()
	redges := real.GetEdges()
	seen := map[string]bool{}
	var walk func(n *Node, realID string)
	walk = func(n *Node, realID string) {
		if seen[realID] {
			return
		}
		seen[realID] = true
		rn, ok := rnodes[realID]
		if !ok {
			return
		}
		if n.Kind != KType && n.Kind != KWild {
			keys := map[string]bool{}
			for k := range rn.GetWeights() {
				keys[k] = true
			}
			if !sameSet(keys, n.R) && len(diffs) < 20 {
				diffs = append(diffs, Diff{"weights", fmt.Sprintf("node %s carries weights for [%s], the user types that can reach it are [%s]", n.ID, FmtS(keys), FmtS(n.R))})
			}
		}
		res := redges[realID]
		fes := n.Edges()
		if len(res) != len(fes) {
			return
		}
		for i, fe := range fes {
			if fe.To.IsOp() && res[i].GetTo() != nil && res[i].GetTo().GetNodeType() == graph.OperatorNode {
				walk(fe.To, res[i].GetTo().GetUniqueLabel())
			}
		}
	}
	for _, id := range g.Order {
		if n := g.Nodes[id]; !n.IsOp() {
			walk(n, id)
		}
	}
	return diffs
}
