package g4

import (
	"fmt"
	"os"
	"regexp"
	"strings"
)

// ---- reading a parser grammar into BNF ----

type Sym struct {
	Name string // terminal: token name, "EOF"; nonterminal: rule name or generated
	Term bool
	Not  bool // ~Name : any token but Name (and EOF)
}
type Prod struct {
	LHS string
	RHS []Sym
}
type Grammar struct {
	Rules []string // declared parser rules in order
	Prods []Prod
	byLHS map[string][]int
	fresh int
}

var tokRe = regexp.MustCompile(`\s+|//[^\n]*|/\*(?s:.*?)\*/|[A-Za-z_][A-Za-z_0-9]*|'(?:[^'\\]|\\.)*'|[:;|()?*+~=]|\{[^}]*\}|.`)

func lexG4(src string) []string {
	var out []string
	for _, t := range tokRe.FindAllString(src, -1) {
		if strings.TrimSpace(t) == "" || strings.HasPrefix(t, "//") || strings.HasPrefix(t, "/*") {
			continue
		}
		out = append(out, t)
	}
	return out
}

type reader struct {
	toks []string
	pos  int
	g    *Grammar
}

func (r *reader) peek() string {
	if r.pos < len(r.toks) {
		return r.toks[r.pos]
	}
	return ""
}
func (r *reader) next() string { t := r.peek(); r.pos++; return t }

func ReadParserGrammar(path string) (*Grammar, error) {
	b, err := os.ReadFile(path)
	if err != nil {
		return nil, err
	}
	toks := lexG4(string(b))
	g := &Grammar{byLHS: map[string][]int{}}
	r := &reader{toks: toks, g: g}
	// header: parser grammar X ; options {...}
	for r.peek() != "" {
		t := r.peek()
		if t == "parser" || t == "grammar" || t == "lexer" {
			for r.next() != ";" {
			}
			continue
		}
		if t == "options" {
			r.next()
			r.next() // {...}
			continue
		}
		break
	}
	for r.peek() != "" {
		name := r.next()
		if r.next() != ":" {
			return nil, fmt.Errorf("expected ':' after rule %s (got %q)", name, r.toks[r.pos-1])
		}
		g.Rules = append(g.Rules, name)
		r.alts(name)
		if r.next() != ";" {
			return nil, fmt.Errorf("expected ';' at end of rule %s (got %q)", name, r.toks[r.pos-1])
		}
	}
	for i, p := range g.Prods {
		g.byLHS[p.LHS] = append(g.byLHS[p.LHS], i)
	}
	return g, nil
}

func (r *reader) newNT(base string) string {
	r.g.fresh++
	return fmt.Sprintf("%s$%d", base, r.g.fresh)
}

// alts parses alternatives until ';' or ')' and adds productions for lhs
func (r *reader) alts(lhs string) {
	for {
		seq := r.seq(lhs)
		r.g.Prods = append(r.g.Prods, Prod{LHS: lhs, RHS: seq})
		if r.peek() == "|" {
			r.next()
			continue
		}
		return
	}
}

func (r *reader) seq(ctx string) []Sym {
	var out []Sym
	for {
		t := r.peek()
		if t == "" || t == ";" || t == "|" || t == ")" {
			return out
		}
		var s Sym
		switch {
		case t == "(":
			r.next()
			nt := r.newNT(ctx)
			r.alts(nt)
			if r.next() != ")" {
				panic("expected )")
			}
			s = Sym{Name: nt}
		case t == "~":
			r.next()
			x := r.next()
			if x == "(" {
				x = r.next()
				if r.next() != ")" {
					panic("only single-token negation supported")
				}
			}
			s = Sym{Name: x, Term: true, Not: true}
		default:
			r.next()
			if r.peek() == "=" { // label
				r.next()
				continue
			}
			if t[0] >= 'A' && t[0] <= 'Z' {
				s = Sym{Name: t, Term: true}
			} else {
				s = Sym{Name: t}
			}
		}
		// suffix
		switch r.peek() {
		case "?":
			r.next()
			nt := r.newNT(ctx)
			r.g.Prods = append(r.g.Prods, Prod{LHS: nt}, Prod{LHS: nt, RHS: []Sym{s}})
			s = Sym{Name: nt}
		case "*":
			r.next()
			nt := r.newNT(ctx)
			r.g.Prods = append(r.g.Prods, Prod{LHS: nt}, Prod{LHS: nt, RHS: []Sym{s, {Name: nt}}})
			s = Sym{Name: nt}
		case "+":
			r.next()
			nt := r.newNT(ctx)
			r.g.Prods = append(r.g.Prods, Prod{LHS: nt, RHS: []Sym{s}}, Prod{LHS: nt, RHS: []Sym{s, {Name: nt}}})
			s = Sym{Name: nt}
		}
		out = append(out, s)
	}
}

// ---- Earley recognizer ----
type item struct {
	prod, dot, origin int
}

func (g *Grammar) Accepts(start string, toks []string) bool {
	n := len(toks)
	sets := make([]map[item]bool, n+1)
	order := make([][]item, n+1)
	for i := range sets {
		sets[i] = map[item]bool{}
	}
	add := func(k int, it item) {
		if !sets[k][it] {
			sets[k][it] = true
			order[k] = append(order[k], it)
		}
	}
	nullable := g.nullable()
	for _, pi := range g.byLHS[start] {
		add(0, item{pi, 0, 0})
	}
	for k := 0; k <= n; k++ {
		for idx := 0; idx < len(order[k]); idx++ {
			it := order[k][idx]
			p := g.Prods[it.prod]
			if it.dot < len(p.RHS) {
				s := p.RHS[it.dot]
				if s.Term {
					if k < n {
						tok := toks[k]
						ok := (!s.Not && tok == s.Name) || (s.Not && tok != s.Name && tok != "EOF" && !strings.HasPrefix(tok, "@"))
						if ok {
							add(k+1, item{it.prod, it.dot + 1, it.origin})
						}
					}
				} else {
					for _, pi := range g.byLHS[s.Name] {
						add(k, item{pi, 0, k})
					}
					if nullable[s.Name] {
						add(k, item{it.prod, it.dot + 1, it.origin})
					}
				}
			} else {
				// complete
				for _, par := range order[it.origin] {
					pp := g.Prods[par.prod]
					if par.dot < len(pp.RHS) && !pp.RHS[par.dot].Term && pp.RHS[par.dot].Name == p.LHS {
						add(k, item{par.prod, par.dot + 1, par.origin})
					}
				}
			}
		}
	}
	for it := range sets[n] {
		p := g.Prods[it.prod]
		if p.LHS == start && it.dot == len(p.RHS) && it.origin == 0 {
			return true
		}
	}
	return false
}

func (g *Grammar) nullable() map[string]bool {
	nl := map[string]bool{}
	for changed := true; changed; {
		changed = false
		for _, p := range g.Prods {
			if nl[p.LHS] {
				continue
			}
			all := true
			for _, s := range p.RHS {
				if s.Term || !nl[s.Name] {
					all = false
					break
				}
			}
			if all {
				nl[p.LHS] = true
				changed = true
			}
		}
	}
	return nl
}

// TreeGrammar returns the grammar in which every reference to a declared parser rule X is the terminal "@X": a parse
// tree node of rule R whose children are the tokens t1..tn / sub-trees of rules X1..Xk conforms to the grammar exactly
// when the child sequence (token names and "@Xi") is derived from R in the tree grammar.
func (g *Grammar) TreeGrammar() *Grammar {
	isRule := map[string]bool{}
	for _, r := range g.Rules {
		isRule[r] = true
	}
	t := &Grammar{Rules: g.Rules, byLHS: map[string][]int{}}
	for i, p := range g.Prods {
		q := Prod{LHS: p.LHS}
		for _, s := range p.RHS {
			if !s.Term && isRule[s.Name] {
				s = Sym{Name: "@" + s.Name, Term: true}
			}
			q.RHS = append(q.RHS, s)
		}
		t.Prods = append(t.Prods, q)
		t.byLHS[q.LHS] = append(t.byLHS[q.LHS], i)
	}
	return t
}
