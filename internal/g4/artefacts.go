package g4

import (
	"sort"
	"fmt"
	"os"
	"regexp"
	"strconv"
	"strings"
)

// Readers for the generated artefacts (Go / TypeScript / Java sources, .interp files) and for the lexer grammar.

var intRe = regexp.MustCompile(`-?\d+`)

func intsBetween(src, startMarker, endMarker string) ([]int, error) {
	i := strings.Index(src, startMarker)
	if i < 0 {
		return nil, fmt.Errorf("marker %q not found", startMarker)
	}
	rest := src[i+len(startMarker):]
	j := strings.Index(rest, endMarker)
	if j < 0 {
		return nil, fmt.Errorf("end marker %q not found", endMarker)
	}
	var out []int
	for _, t := range intRe.FindAllString(rest[:j], -1) {
		v, err := strconv.Atoi(t)
		if err != nil {
			return nil, err
		}
		out = append(out, v)
	}
	return out, nil
}

// GoATN extracts the []int32 literal of a generated Go recogniser.
func GoATN(src string) ([]int, error) {
	return intsBetween(src, "staticData.serializedATN = []int32{", "}")
}

// TSATN extracts the number[] literal of a generated TypeScript recogniser.
func TSATN(src string) ([]int, error) {
	return intsBetween(src, "_serializedATN: number[] = [", "]")
}

// InterpATN extracts the atn: section of a .interp file.
func InterpATN(src string) ([]int, error) {
	i := strings.LastIndex(src, "\natn:\n")
	if i < 0 {
		return nil, fmt.Errorf("atn: section not found")
	}
	return intsBetween(src[i:], "[", "]")
}

// javaStringLiterals returns the concatenated, unescaped string literals between marker and the next ';'.
func javaStringLiterals(src, marker string) ([]rune, error) {
	i := strings.Index(src, marker)
	if i < 0 {
		return nil, fmt.Errorf("marker %q not found", marker)
	}
	rest := src[i+len(marker):]
	var out []rune
	inStr := false
	for k := 0; k < len(rest); k++ {
		c := rest[k]
		if !inStr {
			if c == '"' {
				inStr = true
			} else if c == ';' {
				return out, nil
			}
			continue
		}
		switch c {
		case '"':
			inStr = false
		case '\\':
			k++
			if k >= len(rest) {
				return nil, fmt.Errorf("dangling escape")
			}
			e := rest[k]
			switch {
			case e == 'u':
				// one or more 'u' then 4 hex digits
				for k+1 < len(rest) && rest[k+1] == 'u' {
					k++
				}
				if k+4 >= len(rest) {
					return nil, fmt.Errorf("short unicode escape")
				}
				v, err := strconv.ParseUint(rest[k+1:k+5], 16, 32)
				if err != nil {
					return nil, err
				}
				out = append(out, rune(v))
				k += 4
			case e >= '0' && e <= '7':
				// octal: up to 3 digits (first <= 3 for 3 digits)
				n := 1
				for n < 3 && k+n < len(rest) && rest[k+n] >= '0' && rest[k+n] <= '7' && (n < 2 || e <= '3') {
					n++
				}
				v, _ := strconv.ParseUint(rest[k:k+n], 8, 32)
				out = append(out, rune(v))
				k += n - 1
			default:
				m := map[byte]rune{'b': '\b', 't': '\t', 'n': '\n', 'f': '\f', 'r': '\r', '"': '"', '\'': '\'', '\\': '\\', 's': ' '}
				r, ok := m[e]
				if !ok {
					return nil, fmt.Errorf("unknown escape \\%c", e)
				}
				out = append(out, r)
			}
		default:
			// source files are ASCII inside these literals; decode UTF-8 anyway
			r, sz := decodeRune(rest[k:])
			out = append(out, r)
			k += sz - 1
		}
	}
	return nil, fmt.Errorf("unterminated declaration")
}

func decodeRune(s string) (rune, int) {
	for i, r := range s {
		_ = i
		return r, len(string(r))
	}
	return 0, 1
}

// JavaATN decodes the 16-bit-word string encoding of ANTLR 4.10+ Java targets.
func JavaATN(src string) ([]int, error) {
	words, err := javaStringLiterals(src, "_serializedATN =")
	if err != nil {
		return nil, err
	}
	var out []int
	for i := 0; i < len(words); i++ {
		w := int(words[i])
		if w < 0x8000 {
			out = append(out, w)
			continue
		}
		if i+1 >= len(words) {
			return nil, fmt.Errorf("truncated two-word value")
		}
		w2 := int(words[i+1])
		i++
		if w == 0xFFFF && w2 == 0xFFFF {
			out = append(out, -1)
		} else {
			out = append(out, (w&0x7FFF)<<16|w2)
		}
	}
	return out, nil
}

var strLitRe = regexp.MustCompile(`"((?:[^"\\]|\\.)*)"|\bnull\b`)

func stringList(body string) []string {
	var out []string
	for _, m := range strLitRe.FindAllStringSubmatch(body, -1) {
		if m[0] == "null" {
			out = append(out, "")
			continue
		}
		s := m[1]
		s = strings.ReplaceAll(s, `\\`, "\x00")
		s = strings.ReplaceAll(s, `\"`, `"`)
		s = strings.ReplaceAll(s, `\'`, `'`)
		s = strings.ReplaceAll(s, "\x00", `\`)
		out = append(out, s)
	}
	return out
}

func section(src, startMarker, endMarker string) (string, error) {
	i := strings.Index(src, startMarker)
	if i < 0 {
		return "", fmt.Errorf("marker %q not found", startMarker)
	}
	rest := src[i+len(startMarker):]
	j := strings.Index(rest, endMarker)
	if j < 0 {
		return "", fmt.Errorf("end of %q not found", startMarker)
	}
	return rest[:j], nil
}

// Names tables of one generated recogniser.
type Names struct {
	Rule, Literal, Symbolic, Mode []string
}

func trimTrailingEmpty(xs []string) []string {
	for len(xs) > 0 && xs[len(xs)-1] == "" {
		xs = xs[:len(xs)-1]
	}
	return xs
}

func GoNames(src string) (Names, error) {
	var n Names
	var err error
	get := func(field string) []string {
		b, e := section(src, "staticData."+field+" = []string{", "\n  }")
		if e != nil {
			err = e
		}
		return stringList(b)
	}
	n.Rule, n.Literal, n.Symbolic = get("RuleNames"), trimTrailingEmpty(get("LiteralNames")), trimTrailingEmpty(get("SymbolicNames"))
	if strings.Contains(src, "staticData.ModeNames") {
		n.Mode = get("ModeNames")
	}
	return n, err
}

func TSNames(src string) (Names, error) {
	var n Names
	var err error
	get := func(field, typ string) []string {
		b, e := section(src, "public static readonly "+field+": "+typ+" = [", "];")
		if e != nil {
			err = e
		}
		return stringList(b)
	}
	n.Rule = get("ruleNames", "string[]")
	n.Literal = trimTrailingEmpty(get("literalNames", "(string | null)[]"))
	n.Symbolic = trimTrailingEmpty(get("symbolicNames", "(string | null)[]"))
	if strings.Contains(src, "readonly modeNames") {
		n.Mode = get("modeNames", "string[]")
	}
	return n, err
}

func JavaNames(src string) (Names, error) {
	var n Names
	var err error
	get := func(fn string) []string {
		b, e := section(src, fn+"() {", "};")
		if e != nil {
			err = e
		}
		return stringList(b)
	}
	n.Rule = get("makeRuleNames")
	n.Literal = trimTrailingEmpty(get("makeLiteralNames"))
	n.Symbolic = trimTrailingEmpty(get("makeSymbolicNames"))
	if strings.Contains(src, "String[] modeNames = {") {
		b, e := section(src, "String[] modeNames = {", "};")
		if e != nil {
			err = e
		}
		n.Mode = stringList(b)
	}
	return n, err
}

// CodeFingerprint extracts, from one generated parser source, the sequence of ATN state numbers the code sets and
// the sequence of decision numbers it hands to the prediction engine, in order of appearance. ANTLR emits the same
// sequences for every target language from one grammar; a hand edit of one generated file changes them.
func CodeFingerprint(src, lang string) (states, decisions []int) {
	var stateRe, decRe *regexp.Regexp
	switch lang {
	case "go":
		stateRe = regexp.MustCompile(`p\.SetState\((\d+)\)`)
		decRe = regexp.MustCompile(`AdaptivePredict\(p\.BaseParser, p\.GetTokenStream\(\), (\d+),`)
	case "ts":
		stateRe = regexp.MustCompile(`this\.state = (\d+);`)
		decRe = regexp.MustCompile(`adaptivePredict\(this\._input, (\d+),`)
	case "java":
		stateRe = regexp.MustCompile(`setState\((\d+)\);`)
		decRe = regexp.MustCompile(`adaptivePredict\(_input,(\d+),_ctx\)`)
	}
	for _, m := range stateRe.FindAllStringSubmatch(src, -1) {
		v, _ := strconv.Atoi(m[1])
		states = append(states, v)
	}
	for _, m := range decRe.FindAllStringSubmatch(src, -1) {
		v, _ := strconv.Atoi(m[1])
		decisions = append(decisions, v)
	}
	return
}

// LexerGrammar is what the lexer .g4 declares.
type LexerGrammar struct {
	// LiteralRules: rules whose body is nothing but alternatives of plain literals ('a' | 'b' ...): rule -> literals
	// (unquoted), with the mode the rule lives in and the token type it produces (its own name or the -> type(X) target)
	LiteralRules []LiteralRule
	Tokens       []string          // token type names in numbering order (tokens{} block, then rules)
	Rules        []string          // every lexer rule incl. fragments, in order
	Modes        []string          // DEFAULT_MODE + declared modes
	Literals     map[string]string // token name -> simple literal (with quotes) when the rule body is one literal
}

type LiteralRule struct {
	Name, Mode, Token string
	Literals          []string
}

func ReadLexerGrammar(path string) (*LexerGrammar, error) {
	b, err := os.ReadFile(path)
	if err != nil {
		return nil, err
	}
	toks := lexG4(string(b))
	lg := &LexerGrammar{Modes: []string{"DEFAULT_MODE"}, Literals: map[string]string{}}
	seen := map[string]bool{}
	addTok := func(n string) {
		if !seen[n] {
			seen[n] = true
			lg.Tokens = append(lg.Tokens, n)
		}
	}
	curMode := "DEFAULT_MODE"
	i := 0
	next := func() string {
		if i < len(toks) {
			i++
			return toks[i-1]
		}
		return ""
	}
	for i < len(toks) {
		t := next()
		switch t {
		case "lexer", "grammar":
			for i < len(toks) && next() != ";" {
			}
		case "tokens":
			blk := next() // {...}
			for _, n := range regexp.MustCompile(`[A-Za-z_][A-Za-z_0-9]*`).FindAllString(blk, -1) {
				addTok(n)
			}
		case "options":
			next()
		case "mode":
			lg.Modes = append(lg.Modes, next())
			curMode = lg.Modes[len(lg.Modes)-1]
			next() // ;
		case "fragment":
			name := next()
			lg.Rules = append(lg.Rules, name)
			for i < len(toks) && next() != ";" {
			}
		default:
			name := t
			if next() != ":" {
				return nil, fmt.Errorf("expected ':' after lexer rule %s", name)
			}
			var body []string
			for i < len(toks) {
				x := next()
				if x == ";" {
					break
				}
				body = append(body, x)
			}
			lg.Rules = append(lg.Rules, name)
			retyped := false
			cmdAt := len(body)
			for k := 0; k+1 < len(body); k++ {
				if body[k] == "-" && body[k+1] == ">" {
					cmdAt = k
					for q := k + 2; q < len(body); q++ {
						if body[q] == "type" {
							retyped = true
						}
					}
					break
				}
			}
			if !retyped {
				addTok(name)
				if cmdAt == 1 && strings.HasPrefix(body[0], "'") {
					lg.Literals[name] = body[0]
				}
			}
			// literal-only rule?
			lits := []string{}
			only := cmdAt > 0
			for k := 0; k < cmdAt; k++ {
				switch {
				case k%2 == 0 && strings.HasPrefix(body[k], "'") && !strings.Contains(body[k], "\\"):
					lits = append(lits, strings.Trim(body[k], "'"))
				case k%2 == 1 && body[k] == "|":
				default:
					only = false
				}
			}
			if only && cmdAt%2 == 1 {
				tok := name
				for q := cmdAt; q+3 < len(body); q++ {
					if body[q] == "type" && body[q+1] == "(" {
						tok = body[q+2]
					}
				}
				skip := false
				for q := cmdAt; q < len(body); q++ {
					if body[q] == "channel" || body[q] == "skip" {
						skip = true
					}
				}
				if !skip {
					lg.LiteralRules = append(lg.LiteralRules, LiteralRule{Name: name, Mode: curMode, Token: tok, Literals: lits})
				}
			}
		}
	}
	return lg, nil
}

// Dispatch is what one generated context class does when a tree walker enters / leaves it: the listener callbacks
// it calls, in the order written.
type Dispatch struct {
	Context     string // rule context name without the "Context" suffix
	Enter, Exit []string
}

// ListenerDispatch extracts, from a generated parser source, the callbacks every rule context hands itself to in
// EnterRule / ExitRule (Go), enterRule / exitRule (TypeScript, Java), in order of appearance.
func ListenerDispatch(src, lang string) []Dispatch {
	var classRe, methRe, callRe *regexp.Regexp
	var bodyEnd string
	switch lang {
	case "go":
		methRe = regexp.MustCompile(`func \(s \*(\w+)Context\) (Enter|Exit)Rule\(listener antlr\.ParseTreeListener\) \{`)
		callRe = regexp.MustCompile(`listenerT\.(\w+)\(s\)`)
		bodyEnd = "\n}"
	case "ts":
		classRe = regexp.MustCompile(`export class (\w+)Context extends`)
		methRe = regexp.MustCompile(`public (enter|exit)Rule\(listener: \w+\): void \{`)
		callRe = regexp.MustCompile(`listener\.(\w+)\(this\)`)
		bodyEnd = "\n\t}"
	case "java":
		classRe = regexp.MustCompile(`public static class (\w+)Context extends`)
		methRe = regexp.MustCompile(`public void (enter|exit)Rule\(ParseTreeListener listener\) \{`)
		callRe = regexp.MustCompile(`\)\s*listener\)\.(\w+)\(this\)`)
		bodyEnd = "\n\t\t}"
	default:
		return nil
	}
	type classAt struct {
		pos  int
		name string
	}
	var classes []classAt
	if classRe != nil {
		for _, m := range classRe.FindAllStringSubmatchIndex(src, -1) {
			classes = append(classes, classAt{m[0], src[m[2]:m[3]]})
		}
	}
	var out []Dispatch
	idx := map[string]int{}
	for _, m := range methRe.FindAllStringSubmatchIndex(src, -1) {
		var ctx, which string
		if lang == "go" {
			ctx, which = src[m[2]:m[3]], src[m[4]:m[5]]
		} else {
			which = src[m[2]:m[3]]
			for _, c := range classes {
				if c.pos < m[0] {
					ctx = c.name
				}
			}
		}
		rest := src[m[1]:]
		if e := strings.Index(rest, bodyEnd); e >= 0 {
			rest = rest[:e]
		}
		var calls []string
		for _, c := range callRe.FindAllStringSubmatch(rest, -1) {
			calls = append(calls, c[1])
		}
		i, ok := idx[ctx]
		if !ok {
			i = len(out)
			idx[ctx] = i
			out = append(out, Dispatch{Context: ctx})
		}
		if strings.EqualFold(which, "enter") {
			out[i].Enter = append(out[i].Enter, calls...)
		} else {
			out[i].Exit = append(out[i].Exit, calls...)
		}
	}
	return out
}

// Labels: the rule-element labels (`name=element`) a parser grammar declares, resp. the labelled children the
// generated contexts of one language offer. Labels live in no automaton, table or vocabulary: a rename that is not
// regenerated everywhere leaves trees whose labelled children differ between the packages.
func GrammarLabels(src string) []string {
	seen := map[string]bool{}
	for _, m := range regexp.MustCompile(`\b([A-Za-z_][A-Za-z_0-9]*)\s*\+?=\s*[A-Za-z_('~]`).FindAllStringSubmatch(stripG4Comments(src), -1) {
		if m[1] != "tokenVocab" && m[1] != "language" && m[1] != "superClass" && m[1] != "caseInsensitive" {
			seen[m[1]] = true
		}
	}
	return sortedKeys(seen)
}

func GeneratedLabels(src, lang string) []string {
	var re *regexp.Regexp
	switch lang {
	case "go":
		re = regexp.MustCompile(`(?m)^\s*// Get\w+ returns the (\w+) (?:rule contexts?|tokens?|rule context list|token list)\.`)
	case "ts":
		re = regexp.MustCompile(`(?m)^\s*public _(\w+)!?: [\w\[\]]+;`)
	case "java":
		re = regexp.MustCompile(`(?m)^\s*public (?:\w+Context|Token|List<\w+>) (\w+)(?: = new ArrayList<\w+>\(\))?;`)
	default:
		return nil
	}
	seen := map[string]bool{}
	for _, m := range re.FindAllStringSubmatch(src, -1) {
		seen[m[1]] = true
	}
	return sortedKeys(seen)
}

func stripG4Comments(src string) string {
	src = regexp.MustCompile(`(?s)/\*.*?\*/`).ReplaceAllString(src, "")
	return regexp.MustCompile(`(?m)//[^\n]*$`).ReplaceAllString(src, "")
}

func sortedKeys(m map[string]bool) []string {
	var out []string
	for k := range m {
		out = append(out, k)
	}
	sort.Strings(out)
	return out
}
