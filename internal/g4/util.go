package g4

func (g *Grammar) minLens() map[string]int {
	const inf = 1 << 30
	ml := map[string]int{}
	for _, p := range g.Prods {
		ml[p.LHS] = inf
	}
	for changed := true; changed; {
		changed = false
		for _, p := range g.Prods {
			l := 0
			for _, s := range p.RHS {
				if s.Term {
					l++
				} else if ml[s.Name] >= inf {
					l = inf
					break
				} else {
					l += ml[s.Name]
				}
			}
			if l < ml[p.LHS] {
				ml[p.LHS] = l
				changed = true
			}
		}
	}
	return ml
}

func (g *Grammar) NumProds() int { return len(g.Prods) }

func (g *Grammar) ProdString(pi int) string {
	p := g.Prods[pi]
	s := p.LHS + " ->"
	for _, x := range p.RHS {
		if x.Not {
			s += " ~" + x.Name
		} else {
			s += " " + x.Name
		}
	}
	return s
}
