package g4

import (
	"fmt"
	"os"
	"sort"
	"strconv"
	"strings"
	"unicode"
)

// An executable reading of a lexer grammar (.g4): every rule body becomes a small regular-expression tree, and
// Match applies ANTLR's documented lexer semantics to an input position: of all token rules of the current mode the
// one matching the LONGEST prefix wins, ties go to the rule written first; commands (type, channel, pushMode,
// popMode, skip, more) are read from the rule. Non-greedy loops (`*?`) are not modelled: where a path through one
// could match, Match says "undecided" and the monitor skips the rest of that input.

type rrange struct{ lo, hi rune }

type lkind int

const (
	lLit lkind = iota
	lSet
	lRef
	lSeq
	lAlt
	lRep
)

type lnode struct {
	kind      lkind
	lit       []rune
	set       []rrange
	neg       bool
	ref       string
	kids      []*lnode
	min       int
	unbounded bool
	nongreedy bool
	ngKnown   bool
	ngVal     bool
}

// LexRule is one rule of the lexer grammar.
type LexRule struct {
	Name, Mode string
	Fragment   bool
	Type       string // token type produced (own name unless -> type(X))
	Push       string
	Pop        bool
	Hidden     bool // -> channel(HIDDEN) or any channel other than the default
	Skip, More bool
	body       *lnode
	self       *lnode
	first      []rrange // characters a match can start with (firstAny: no restriction known)
	firstAny   bool
	idx        int
}

// LexSpec is the executable lexer grammar.
type LexSpec struct {
	CaseInsensitive bool // options { caseInsensitive = true; }
	Rules           []*LexRule
	byName          map[string]*LexRule
	Modes           []string
}

// ---- reading the .g4

type ltok struct {
	kind string // id, lit, set, punct, block
	text string
}

func scanLexerG4(src string) ([]ltok, error) {
	var out []ltok
	rs := []rune(src)
	i := 0
	for i < len(rs) {
		c := rs[i]
		switch {
		case c == ' ' || c == '\t' || c == '\n' || c == '\r' || c == '\f':
			i++
		case c == '/' && i+1 < len(rs) && rs[i+1] == '/':
			for i < len(rs) && rs[i] != '\n' {
				i++
			}
		case c == '/' && i+1 < len(rs) && rs[i+1] == '*':
			j := i + 2
			for j+1 < len(rs) && !(rs[j] == '*' && rs[j+1] == '/') {
				j++
			}
			if j+1 >= len(rs) {
				return nil, fmt.Errorf("unterminated block comment")
			}
			i = j + 2
		case c == '_' || c >= 'A' && c <= 'Z' || c >= 'a' && c <= 'z':
			j := i
			for j < len(rs) && (rs[j] == '_' || rs[j] >= 'A' && rs[j] <= 'Z' || rs[j] >= 'a' && rs[j] <= 'z' || rs[j] >= '0' && rs[j] <= '9') {
				j++
			}
			out = append(out, ltok{"id", string(rs[i:j])})
			i = j
		case c == '\'':
			j := i + 1
			for j < len(rs) && rs[j] != '\'' {
				if rs[j] == '\\' {
					j++
				}
				j++
			}
			if j >= len(rs) {
				return nil, fmt.Errorf("unterminated literal")
			}
			out = append(out, ltok{"lit", string(rs[i+1 : j])})
			i = j + 1
		case c == '[':
			j := i + 1
			for j < len(rs) && rs[j] != ']' {
				if rs[j] == '\\' {
					j++
				}
				j++
			}
			if j >= len(rs) {
				return nil, fmt.Errorf("unterminated set")
			}
			out = append(out, ltok{"set", string(rs[i+1 : j])})
			i = j + 1
		case c == '{':
			j := i + 1
			for j < len(rs) && rs[j] != '}' {
				j++
			}
			if j >= len(rs) {
				return nil, fmt.Errorf("unterminated block")
			}
			out = append(out, ltok{"block", string(rs[i+1 : j])})
			i = j + 1
		case c == '-' && i+1 < len(rs) && rs[i+1] == '>':
			out = append(out, ltok{"punct", "->"})
			i += 2
		case c == '.' && i+1 < len(rs) && rs[i+1] == '.':
			out = append(out, ltok{"punct", ".."})
			i += 2
		case strings.ContainsRune(":;|()?*+~.,=", c):
			out = append(out, ltok{"punct", string(c)})
			i++
		default:
			return nil, fmt.Errorf("unexpected character %q in the lexer grammar", c)
		}
	}
	return out, nil
}

func unescape(s string, inSet bool) ([]rune, error) {
	var out []rune
	rs := []rune(s)
	for i := 0; i < len(rs); i++ {
		if rs[i] != '\\' {
			out = append(out, rs[i])
			continue
		}
		i++
		if i >= len(rs) {
			return nil, fmt.Errorf("dangling backslash in %q", s)
		}
		switch rs[i] {
		case 'n':
			out = append(out, '\n')
		case 'r':
			out = append(out, '\r')
		case 't':
			out = append(out, '\t')
		case 'f':
			out = append(out, '\f')
		case 'b':
			out = append(out, '\b')
		case 'u':
			if i+1 < len(rs) && rs[i+1] == '{' {
				j := i + 2
				for j < len(rs) && rs[j] != '}' {
					j++
				}
				v, err := strconv.ParseUint(string(rs[i+2:j]), 16, 32)
				if err != nil || j >= len(rs) {
					return nil, fmt.Errorf("bad \\u{..} in %q", s)
				}
				out = append(out, rune(v))
				i = j
			} else {
				if i+4 >= len(rs) {
					return nil, fmt.Errorf("bad \\u in %q", s)
				}
				v, err := strconv.ParseUint(string(rs[i+1:i+5]), 16, 32)
				if err != nil {
					return nil, fmt.Errorf("bad \\u in %q", s)
				}
				out = append(out, rune(v))
				i += 4
			}
		case '\\', '\'', '"', ']', '-', '[':
			out = append(out, rs[i])
		default:
			return nil, fmt.Errorf("unsupported escape \\%c in %q", rs[i], s)
		}
	}
	_ = inSet
	return out, nil
}

func parseSet(body string) ([]rrange, error) {
	// ranges a-z need the raw text: a '-' that was escaped is a literal
	var items []struct {
		r   rune
		esc bool
	}
	rs := []rune(body)
	for i := 0; i < len(rs); i++ {
		if rs[i] == '\\' {
			j := i + 1
			if j < len(rs) && rs[j] == 'u' {
				if j+1 < len(rs) && rs[j+1] == '{' {
					for j < len(rs) && rs[j] != '}' {
						j++
					}
				} else {
					j += 4
				}
			}
			if j >= len(rs) {
				return nil, fmt.Errorf("bad escape in set [%s]", body)
			}
			u, err := unescape(string(rs[i:j+1]), true)
			if err != nil || len(u) != 1 {
				return nil, fmt.Errorf("bad escape in set [%s]", body)
			}
			items = append(items, struct {
				r   rune
				esc bool
			}{u[0], true})
			i = j
			continue
		}
		items = append(items, struct {
			r   rune
			esc bool
		}{rs[i], false})
	}
	var out []rrange
	for i := 0; i < len(items); i++ {
		if i+2 < len(items) && items[i+1].r == '-' && !items[i+1].esc {
			out = append(out, rrange{items[i].r, items[i+2].r})
			i += 2
			continue
		}
		out = append(out, rrange{items[i].r, items[i].r})
	}
	return out, nil
}

type lparser struct {
	toks []ltok
	pos  int
}

func (p *lparser) peek() ltok {
	if p.pos < len(p.toks) {
		return p.toks[p.pos]
	}
	return ltok{"eof", ""}
}
func (p *lparser) next() ltok { t := p.peek(); p.pos++; return t }
func (p *lparser) isPunct(s string) bool {
	t := p.peek()
	return t.kind == "punct" && t.text == s
}

func (p *lparser) alt() (*lnode, error) {
	var alts []*lnode
	for {
		s, err := p.seq()
		if err != nil {
			return nil, err
		}
		alts = append(alts, s)
		if p.isPunct("|") {
			p.next()
			continue
		}
		break
	}
	if len(alts) == 1 {
		return alts[0], nil
	}
	return &lnode{kind: lAlt, kids: alts}, nil
}

func (p *lparser) seq() (*lnode, error) {
	n := &lnode{kind: lSeq}
	for {
		t := p.peek()
		if t.kind == "eof" || t.kind == "punct" && (t.text == "|" || t.text == ")" || t.text == ";" || t.text == "->") {
			break
		}
		a, err := p.atom()
		if err != nil {
			return nil, err
		}
		for p.isPunct("?") || p.isPunct("*") || p.isPunct("+") {
			op := p.next().text
			r := &lnode{kind: lRep, kids: []*lnode{a}}
			switch op {
			case "?":
			case "*":
				r.unbounded = true
			case "+":
				r.unbounded = true
				r.min = 1
			}
			if p.isPunct("?") {
				p.next()
				r.nongreedy = true
			}
			a = r
		}
		n.kids = append(n.kids, a)
	}
	return n, nil
}

func (p *lparser) atom() (*lnode, error) {
	t := p.next()
	switch {
	case t.kind == "lit":
		u, err := unescape(t.text, false)
		if err != nil {
			return nil, err
		}
		if p.isPunct("..") {
			p.next()
			hi := p.next()
			if hi.kind != "lit" {
				return nil, fmt.Errorf("range without an upper literal")
			}
			v, err := unescape(hi.text, false)
			if err != nil || len(u) != 1 || len(v) != 1 {
				return nil, fmt.Errorf("bad range '%s'..'%s'", t.text, hi.text)
			}
			return &lnode{kind: lSet, set: []rrange{{u[0], v[0]}}}, nil
		}
		return &lnode{kind: lLit, lit: u}, nil
	case t.kind == "set":
		s, err := parseSet(t.text)
		if err != nil {
			return nil, err
		}
		return &lnode{kind: lSet, set: s}, nil
	case t.kind == "id":
		return &lnode{kind: lRef, ref: t.text}, nil
	case t.kind == "punct" && t.text == ".":
		return &lnode{kind: lSet, neg: true}, nil
	case t.kind == "punct" && t.text == "(":
		a, err := p.alt()
		if err != nil {
			return nil, err
		}
		if !p.isPunct(")") {
			return nil, fmt.Errorf("missing ')'")
		}
		p.next()
		return a, nil
	case t.kind == "punct" && t.text == "~":
		a, err := p.atom()
		if err != nil {
			return nil, err
		}
		return &lnode{kind: lSet, neg: true, kids: []*lnode{a}}, nil // resolved in link()
	}
	return nil, fmt.Errorf("unexpected %q in a lexer rule", t.text)
}

// asSet: the character set a node denotes, if it denotes one (single-character literal, range, set, alternatives
// or a one-element sequence of those, reference to a rule that denotes one).
func (s *LexSpec) asSet(n *lnode, depth int) ([]rrange, bool) {
	if depth > 20 {
		return nil, false
	}
	switch n.kind {
	case lLit:
		if len(n.lit) == 1 {
			return []rrange{{n.lit[0], n.lit[0]}}, true
		}
	case lSet:
		if !n.neg {
			return n.set, true
		}
	case lSeq:
		if len(n.kids) == 1 {
			return s.asSet(n.kids[0], depth+1)
		}
	case lAlt:
		var out []rrange
		for _, k := range n.kids {
			r, ok := s.asSet(k, depth+1)
			if !ok {
				return nil, false
			}
			out = append(out, r...)
		}
		return out, true
	case lRef:
		if r := s.byName[n.ref]; r != nil {
			return s.asSet(r.body, depth+1)
		}
	}
	return nil, false
}

func (s *LexSpec) link(n *lnode) error {
	if n.kind == lSet && n.neg && len(n.kids) == 1 {
		set, ok := s.asSet(n.kids[0], 0)
		if !ok {
			return fmt.Errorf("'~' applied to something that is no character set")
		}
		n.set = set
		n.kids = nil
		return nil
	}
	if n.kind == lRef && s.byName[n.ref] == nil {
		return fmt.Errorf("reference to unknown lexer rule %s", n.ref)
	}
	for _, k := range n.kids {
		if err := s.link(k); err != nil {
			return err
		}
	}
	return nil
}

// ReadLexSpec reads a lexer grammar into its executable form.
func ReadLexSpec(path string) (*LexSpec, error) {
	b, err := os.ReadFile(path)
	if err != nil {
		return nil, err
	}
	toks, err := scanLexerG4(string(b))
	if err != nil {
		return nil, err
	}
	p := &lparser{toks: toks}
	s := &LexSpec{byName: map[string]*LexRule{}, Modes: []string{"DEFAULT_MODE"}}
	mode := "DEFAULT_MODE"
	for p.peek().kind != "eof" {
		t := p.next()
		if t.kind != "id" {
			return nil, fmt.Errorf("unexpected %q at the top level of the lexer grammar", t.text)
		}
		switch t.text {
		case "lexer", "grammar", "import":
			for p.peek().kind != "eof" && !p.isPunct(";") {
				p.next()
			}
			p.next()
			continue
		case "tokens", "options", "channels":
			if p.peek().kind != "block" {
				return nil, fmt.Errorf("%s without a block", t.text)
			}
			blk := p.next().text
			if t.text == "options" {
				for _, kv := range strings.Split(blk, ";") {
					k, v, ok := strings.Cut(kv, "=")
					if ok && strings.TrimSpace(k) == "caseInsensitive" {
						s.CaseInsensitive = strings.TrimSpace(v) == "true"
					}
				}
			}
			continue
		case "mode":
			mode = p.next().text
			s.Modes = append(s.Modes, mode)
			if !p.isPunct(";") {
				return nil, fmt.Errorf("mode without ';'")
			}
			p.next()
			continue
		}
		r := &LexRule{Mode: mode, idx: len(s.Rules)}
		name := t.text
		if name == "fragment" {
			r.Fragment = true
			name = p.next().text
		}
		r.Name, r.Type = name, name
		if !p.isPunct(":") {
			return nil, fmt.Errorf("expected ':' after lexer rule %s", name)
		}
		p.next()
		// ANTLR allows a command per alternative; this grammar (and the reader) have them at the end of the rule only
		body, err := p.alt()
		if err != nil {
			return nil, fmt.Errorf("rule %s: %v", name, err)
		}
		r.body = body
		if p.isPunct("->") {
			p.next()
			for {
				c := p.next()
				if c.kind != "id" {
					return nil, fmt.Errorf("rule %s: command expected", name)
				}
				arg := ""
				if p.isPunct("(") {
					p.next()
					arg = p.next().text
					if !p.isPunct(")") {
						return nil, fmt.Errorf("rule %s: ')' expected in a command", name)
					}
					p.next()
				}
				switch c.text {
				case "type":
					r.Type = arg
				case "pushMode":
					r.Push = arg
				case "popMode":
					r.Pop = true
				case "channel":
					r.Hidden = arg != "DEFAULT_TOKEN_CHANNEL" && arg != "0"
				case "skip":
					r.Skip = true
				case "more":
					r.More = true
				default:
					return nil, fmt.Errorf("rule %s: command %s is not modelled", name, c.text)
				}
				if p.isPunct(",") {
					p.next()
					continue
				}
				break
			}
		}
		if !p.isPunct(";") {
			return nil, fmt.Errorf("rule %s: ';' expected, found %q (commands inside alternatives are not modelled)", name, p.peek().text)
		}
		p.next()
		if s.byName[name] != nil {
			return nil, fmt.Errorf("lexer rule %s defined twice", name)
		}
		s.byName[name] = r
		s.Rules = append(s.Rules, r)
	}
	for _, r := range s.Rules {
		if err := s.link(r.body); err != nil {
			return nil, fmt.Errorf("rule %s: %v", r.Name, err)
		}
	}
	for _, r := range s.Rules { // everything Match reads is computed here: runs share the spec between goroutines
		r.self = &lnode{kind: lRef, ref: r.Name}
		s.hasNG(r.body, 0)
		var nullable bool
		r.first, r.firstAny, nullable = s.firstSet(r.body, 0)
		if nullable || s.CaseInsensitive {
			r.firstAny = true
		}
	}
	return s, nil
}

// ---- matching

type mkey struct {
	rule, pos int
	ng        bool
}

// LexRun holds the memo for one input.
type LexRun struct {
	s    *LexSpec
	in   []rune
	memo map[mkey][]int
	busy map[mkey]bool
	ng   bool
}

func (s *LexSpec) NewRun(in []rune) *LexRun {
	return &LexRun{s: s, in: in, memo: map[mkey][]int{}, busy: map[mkey]bool{}}
}

func inSet(set []rrange, c rune) bool {
	for _, r := range set {
		if c >= r.lo && c <= r.hi {
			return true
		}
	}
	return false
}

func foldEq(a, b rune) bool {
	return unicode.ToLower(a) == unicode.ToLower(b) || unicode.ToUpper(a) == unicode.ToUpper(b)
}

func uniq(xs []int) []int {
	if len(xs) < 2 {
		return xs
	}
	sort.Ints(xs)
	out := xs[:1]
	for _, x := range xs[1:] {
		if x != out[len(out)-1] {
			out = append(out, x)
		}
	}
	return out
}

func (m *LexRun) ends(n *lnode, pos int) []int {
	switch n.kind {
	case lLit:
		if pos+len(n.lit) > len(m.in) {
			return nil
		}
		for i, c := range n.lit {
			if m.in[pos+i] != c && !(m.s.CaseInsensitive && foldEq(m.in[pos+i], c)) {
				return nil
			}
		}
		return []int{pos + len(n.lit)}
	case lSet:
		if pos >= len(m.in) {
			return nil
		}
		hit := inSet(n.set, m.in[pos])
		if !hit && m.s.CaseInsensitive {
			hit = inSet(n.set, unicode.ToLower(m.in[pos])) || inSet(n.set, unicode.ToUpper(m.in[pos]))
		}
		if hit != n.neg {
			return []int{pos + 1}
		}
		return nil
	case lRef:
		r := m.s.byName[n.ref]
		k := mkey{r.idx, pos, m.ng}
		if v, ok := m.memo[k]; ok {
			return v
		}
		if m.busy[k] {
			return nil // left recursion: not a lexer grammar ANTLR accepts
		}
		m.busy[k] = true
		v := m.ends(r.body, pos)
		delete(m.busy, k)
		m.memo[k] = v
		return v
	case lSeq:
		cur := []int{pos}
		for _, k := range n.kids {
			var nxt []int
			for _, p := range cur {
				nxt = append(nxt, m.ends(k, p)...)
			}
			cur = uniq(nxt)
			if len(cur) == 0 {
				return nil
			}
		}
		return cur
	case lAlt:
		var out []int
		for _, k := range n.kids {
			out = append(out, m.ends(k, pos)...)
		}
		return uniq(out)
	case lRep:
		if n.nongreedy && !m.ng {
			return nil
		}
		seen := map[int]bool{}
		var out []int
		if n.min == 0 {
			out = append(out, pos)
			seen[pos] = true
		}
		frontier := []int{pos}
		first := true
		for len(frontier) > 0 {
			var nxt []int
			for _, p := range frontier {
				for _, e := range m.ends(n.kids[0], p) {
					if e == p {
						continue // empty iteration
					}
					if !seen[e] {
						seen[e] = true
						out = append(out, e)
						nxt = append(nxt, e)
					}
				}
			}
			frontier = nxt
			if !n.unbounded && first {
				break
			}
			first = false
		}
		return uniq(out)
	}
	return nil
}

// Match: the token the grammar prescribes at pos in the given mode. end == pos means no rule matches a non-empty
// prefix. undecided: a path through a non-greedy loop could match here.
func (m *LexRun) Match(mode string, pos int) (end int, rule *LexRule, undecided bool) {
	end = pos
	for _, r := range m.s.Rules {
		if r.Fragment || r.Mode != mode {
			continue
		}
		if !r.firstAny && (pos >= len(m.in) || !inSet(r.first, m.in[pos])) {
			continue
		}
		m.ng = false
		a := m.ends(r.self, pos)
		if m.s.hasNG(r.body, 0) {
			m.ng = true
			b := m.ends(r.self, pos)
			m.ng = false
			if len(a) != len(b) {
				return pos, nil, true
			}
			for i := range a {
				if a[i] != b[i] {
					return pos, nil, true
				}
			}
		}
		if len(a) > 0 && a[len(a)-1] > end {
			end, rule = a[len(a)-1], r
		}
	}
	return end, rule, false
}

// firstSet: a superset of the characters a match of n can start with (any = unrestricted), and whether n can match
// the empty string. Only used to skip rules that cannot match at a position.
func (s *LexSpec) firstSet(n *lnode, depth int) (set []rrange, any bool, nullable bool) {
	if depth > 30 {
		return nil, true, true
	}
	switch n.kind {
	case lLit:
		if len(n.lit) == 0 {
			return nil, false, true
		}
		return []rrange{{n.lit[0], n.lit[0]}}, false, false
	case lSet:
		if n.neg {
			return nil, true, false
		}
		return n.set, false, false
	case lRef:
		if r := s.byName[n.ref]; r != nil {
			return s.firstSet(r.body, depth+1)
		}
		return nil, true, true
	case lSeq:
		nullable = true
		for _, k := range n.kids {
			ks, ka, kn := s.firstSet(k, depth+1)
			set = append(set, ks...)
			any = any || ka
			if !kn {
				nullable = false
				break
			}
		}
		return set, any, nullable
	case lAlt:
		for _, k := range n.kids {
			ks, ka, kn := s.firstSet(k, depth+1)
			set = append(set, ks...)
			any = any || ka
			nullable = nullable || kn
		}
		return set, any, nullable
	case lRep:
		ks, ka, kn := s.firstSet(n.kids[0], depth+1)
		return ks, ka, kn || n.min == 0
	}
	return nil, true, true
}

// hasNG: does the node (following rule references) contain a non-greedy loop?
func (s *LexSpec) hasNG(n *lnode, depth int) bool {
	if n.ngKnown {
		return n.ngVal
	}
	v := false
	if depth < 30 {
		switch {
		case n.kind == lRep && n.nongreedy:
			v = true
		case n.kind == lRef:
			if r := s.byName[n.ref]; r != nil {
				v = s.hasNG(r.body, depth+1)
			}
		}
		for _, k := range n.kids {
			if s.hasNG(k, depth+1) {
				v = true
			}
		}
	}
	if depth == 0 {
		n.ngKnown, n.ngVal = true, v
	}
	return v
}

// Alphabet: every character the grammar mentions, the neighbours of every range end, and a few outsiders - the
// characters on which an edit of a character class can show.
func (s *LexSpec) Alphabet() []rune {
	seen := map[rune]bool{}
	var walk func(n *lnode)
	walk = func(n *lnode) {
		for _, c := range n.lit {
			seen[c] = true
			seen[unicode.ToUpper(c)] = true
		}
		for _, r := range n.set {
			for _, c := range []rune{r.lo - 1, r.lo, r.lo + 1, r.hi - 1, r.hi, r.hi + 1} {
				if c >= 0 {
					seen[c] = true
				}
			}
		}
		for _, k := range n.kids {
			walk(k)
		}
	}
	for _, r := range s.Rules {
		walk(r.body)
	}
	for _, c := range []rune{0, 1, '\b', '\t', '\n', '\v', '\f', '\r', ' ', 0x7f, 0x85, 0xa0, 'é', 0x2028, 0x3000, 0x1F600, '$', '@', ';', '^', '~', '`', '=', '&', '|'} {
		seen[c] = true
	}
	var out []rune
	for c := range seen {
		out = append(out, c)
	}
	sort.Slice(out, func(i, j int) bool { return out[i] < out[j] })
	return out
}
