package g4

// TargetedSentence returns the token names of a shortest sentence of start whose derivation uses production pi.
func (g *Grammar) TargetedSentence(start string, pi int) ([]string, bool) {
	const inf = 1 << 30
	ml := g.minLens()
	// best production per nonterminal for minimal expansion
	bestProd := map[string]int{}
	for nt := range g.byLHS {
		best := inf
		for _, p := range g.byLHS[nt] {
			l := 0
			for _, s := range g.Prods[p].RHS {
				if s.Term {
					l++
				} else if ml[s.Name] >= inf {
					l = inf
					break
				} else {
					l += ml[s.Name]
				}
			}
			if l < best {
				best = l
				bestProd[nt] = p
			}
		}
	}
	// context cost: Dijkstra-ish relaxation
	cost := map[string]int{start: 0}
	via := map[string][2]int{} // nt -> (production, position) through which it is reached
	for changed := true; changed; {
		changed = false
		for p, pr := range g.Prods {
			cx, ok := cost[pr.LHS]
			if !ok {
				continue
			}
			for pos, s := range pr.RHS {
				if s.Term {
					continue
				}
				c := cx
				okc := true
				for q, o := range pr.RHS {
					if q == pos {
						continue
					}
					if o.Term {
						c++
					} else if ml[o.Name] >= inf {
						okc = false
					} else {
						c += ml[o.Name]
					}
				}
				if !okc {
					continue
				}
				if old, ok := cost[s.Name]; !ok || c < old {
					cost[s.Name] = c
					via[s.Name] = [2]int{p, pos}
					changed = true
				}
			}
		}
	}
	target := g.Prods[pi]
	if _, ok := cost[target.LHS]; !ok {
		return nil, false
	}
	// path of (production,pos) from start to target.LHS
	var path [][2]int
	for nt := target.LHS; nt != start; {
		v, ok := via[nt]
		if !ok {
			return nil, false
		}
		path = append([][2]int{v}, path...)
		nt = g.Prods[v[0]].LHS
	}
	var out []string
	var minExpand func(nt string)
	minExpand = func(nt string) {
		for _, s := range g.Prods[bestProd[nt]].RHS {
			if s.Term {
				out = append(out, symName(s))
			} else {
				minExpand(s.Name)
			}
		}
	}
	var walk func(step int)
	walk = func(step int) {
		var pr Prod
		hole := -1
		if step < len(path) {
			pr = g.Prods[path[step][0]]
			hole = path[step][1]
		} else {
			pr = target
		}
		for pos, s := range pr.RHS {
			switch {
			case s.Term:
				out = append(out, symName(s))
			case pos == hole:
				walk(step + 1)
			default:
				minExpand(s.Name)
			}
		}
	}
	walk(0)
	return out, true
}

func symName(s Sym) string {
	if s.Not {
		return "~" + s.Name
	}
	return s.Name
}
