// Package gen holds the seeded generators.
package gen

import (
	"fmt"
	"google.golang.org/protobuf/proto"
	"math/rand"
	"sort"
	"strings"

	openfgav1 "github.com/openfga/api/proto/openfga/v1"
)

// ---- G1: protobuf-level model generator for the graph properties ----

type ModelOpt struct {
	MaxTerm          int  // terminal types (default 2)
	MaxObj           int  // object types (default 2)
	MaxRel           int  // relations per object type besides the tupleset (default 5)
	Hazards          bool // plant cycle hazards (C05)
	Conditions       bool // conditioned / duplicated restrictions (C10)
	Wildcards        int  // weight of wildcard restrictions out of 6 (default 1)
	ManyRestrictions bool // direct assignments with up to 14 restrictions (long lists)
	Shapes           bool // plant only the VALID tricky shapes of the hazard catalogue (C04, C10, C11)
	PureCycles       bool // bias towards cycles of pure computed relations (C17)
	FreeThis         bool // allow several `this` under one operator (C02 style); never used for graph properties
}

func (o *ModelOpt) defaults() {
	if o.MaxTerm == 0 {
		o.MaxTerm = 2
	}
	if o.MaxObj == 0 {
		o.MaxObj = 2
	}
	if o.MaxRel == 0 {
		o.MaxRel = 5
	}
	if o.Wildcards == 0 {
		o.Wildcards = 1
	}
}

func This() *openfgav1.Userset {
	return &openfgav1.Userset{Userset: &openfgav1.Userset_This{This: &openfgav1.DirectUserset{}}}
}
func Computed(rel string) *openfgav1.Userset {
	return &openfgav1.Userset{Userset: &openfgav1.Userset_ComputedUserset{ComputedUserset: &openfgav1.ObjectRelation{Relation: rel}}}
}
func TTU(computed, tupleset string) *openfgav1.Userset {
	return &openfgav1.Userset{Userset: &openfgav1.Userset_TupleToUserset{TupleToUserset: &openfgav1.TupleToUserset{
		Tupleset: &openfgav1.ObjectRelation{Relation: tupleset}, ComputedUserset: &openfgav1.ObjectRelation{Relation: computed}}}}
}
func Union(ch ...*openfgav1.Userset) *openfgav1.Userset {
	return &openfgav1.Userset{Userset: &openfgav1.Userset_Union{Union: &openfgav1.Usersets{Child: ch}}}
}
func Inter(ch ...*openfgav1.Userset) *openfgav1.Userset {
	return &openfgav1.Userset{Userset: &openfgav1.Userset_Intersection{Intersection: &openfgav1.Usersets{Child: ch}}}
}
func Diff(base, sub *openfgav1.Userset) *openfgav1.Userset {
	return &openfgav1.Userset{Userset: &openfgav1.Userset_Difference{Difference: &openfgav1.Difference{Base: base, Subtract: sub}}}
}
func RefType(t string) *openfgav1.RelationReference { return &openfgav1.RelationReference{Type: t} }
func RefWild(t string) *openfgav1.RelationReference {
	return &openfgav1.RelationReference{Type: t, RelationOrWildcard: &openfgav1.RelationReference_Wildcard{Wildcard: &openfgav1.Wildcard{}}}
}
func RefRel(t, r string) *openfgav1.RelationReference {
	return &openfgav1.RelationReference{Type: t, RelationOrWildcard: &openfgav1.RelationReference_Relation{Relation: r}}
}

type mgen struct {
	r         *rand.Rand
	opt       ModelOpt
	tuplesets []string // tupleset relations every object type has ("p", sometimes also "q")
}

// nChildren: 2-3 operands, now and then a single one (only JSON / protobuf models can carry a one-child
// union or intersection; it still is an operator occurrence with its own node) or a wide one.
func (g *mgen) nChildren() int {
	switch k := g.r.Intn(20); {
	case k == 0:
		return 1
	case k == 1:
		return 4 + g.r.Intn(3)
	case k == 2 && g.r.Intn(4) == 0:
		return 13 + g.r.Intn(5) // beyond the small-slice thresholds of the sort routines (12)
	}
	return 2 + g.r.Intn(2)
}

func (g *mgen) tupleset() string { return g.tuplesets[g.r.Intn(len(g.tuplesets))] }

// Model generates one model. Constraints (DESIGN §7-b): at most one `this` and no two identical leaves under
// one operator; a `this` always has at least one restriction; tupleset relations are direct and type-only.
func Model(r *rand.Rand, opt ModelOpt) *openfgav1.AuthorizationModel {
	opt.defaults()
	g := &mgen{r: r, opt: opt, tuplesets: []string{"p"}}
	nTerm := 1 + r.Intn(opt.MaxTerm)
	nObj := 1 + r.Intn(opt.MaxObj)
	var terms, objs []string
	for i := 0; i < nTerm; i++ {
		terms = append(terms, fmt.Sprintf("u%d", i))
	}
	for i := 0; i < nObj; i++ {
		objs = append(objs, fmt.Sprintf("o%d", i))
	}
	collide := opt.Conditions && r.Intn(12) == 0
	if collide && nTerm >= 2 {
		// a type named like another type followed by a condition name: keys built by gluing label and condition
		// together without a separator cannot tell `u0 with c1` from `u0c1`
		terms[nTerm-1] = terms[0] + "c1"
	}
	if r.Intn(15) == 0 {
		// types named like the operator nodes the graph packages create (all three are ordinary DSL identifiers)
		ops := []string{"union", "intersection", "exclusion"}
		terms[0] = ops[r.Intn(3)]
		if r.Intn(2) == 0 {
			objs[0] = ops[(indexOf(ops, terms[0])+1+r.Intn(2))%3]
		}
	}
	m := &openfgav1.AuthorizationModel{SchemaVersion: "1.1"}
	if r.Intn(2) == 0 {
		// models fetched from a store carry an id; DIFFERENT models may carry the SAME id (edited and reloaded), so
		// nothing may be remembered under it
		m.Id = []string{"01HVMMBCMGZNT3SED4Z17ECXCA", "01HVMMBCMGZNT3SED4Z17ECXCA", "01J0000000000000000000000A", "m"}[r.Intn(4)]
	}
	for _, t := range terms {
		m.TypeDefinitions = append(m.TypeDefinitions, &openfgav1.TypeDefinition{Type: t})
	}
	nRel := 1 + r.Intn(opt.MaxRel)
	relNames := []string{}
	for i := 0; i < nRel; i++ {
		relNames = append(relNames, fmt.Sprintf("r%d", i))
	}
	if collide && nRel >= 2 {
		relNames[nRel-1] = relNames[0] + "c2" // likewise for `o0#r0 with c2` and `o0#r0c2`
	}
	if !collide && nRel >= 2 && r.Intn(12) == 0 {
		relNames[nRel-1] = strings.ToUpper(relNames[0]) // names differing only in case: comparisons that fold case see a tie
		if nObj >= 2 && r.Intn(2) == 0 {
			objs[nObj-1] = strings.ToUpper(objs[0])
		}
	}
	if r.Intn(3) == 0 {
		g.tuplesets = []string{"p", "q"} // a second tupleset with its own parent types
	}
	sparse := r.Intn(5) == 0
	sparseMeta := r.Intn(4) == 0
	for _, o := range objs {
		td := &openfgav1.TypeDefinition{Type: o, Relations: map[string]*openfgav1.Userset{}, Metadata: &openfgav1.Metadata{Relations: map[string]*openfgav1.RelationMetadata{}}}
		if len(g.tuplesets) > 1 {
			var qrefs []*openfgav1.RelationReference
			qperm := r.Perm(len(objs))
			for i := 0; i < 1+r.Intn(2) && i < len(objs); i++ {
				qrefs = append(qrefs, RefType(objs[qperm[i]]))
			}
			td.Relations["q"] = This()
			td.Metadata.Relations["q"] = &openfgav1.RelationMetadata{DirectlyRelatedUserTypes: qrefs}
		}
		var prefs []*openfgav1.RelationReference
		np := 1 + r.Intn(3)
		perm := r.Perm(len(objs))
		for i := 0; i < np && i < len(objs); i++ {
			ref := RefType(objs[perm[i]])
			if opt.Conditions && r.Intn(4) == 0 {
				ref.Condition = "c1"
			}
			prefs = append(prefs, ref)
		}
		if r.Intn(4) == 0 {
			// the same parent type twice (differently conditioned when conditions are wanted), anywhere in the
			// list - in particular before a different parent type
			src := prefs[r.Intn(len(prefs))]
			dup := RefType(src.GetType())
			if opt.Conditions && src.GetCondition() == "" {
				dup.Condition = "c2"
			}
			pos := r.Intn(len(prefs) + 1)
			prefs = append(prefs[:pos], append([]*openfgav1.RelationReference{dup}, prefs[pos:]...)...)
		}
		td.Relations["p"] = This()
		td.Metadata.Relations["p"] = &openfgav1.RelationMetadata{DirectlyRelatedUserTypes: prefs}
		for ri, rn := range relNames {
			// sometimes a type defines only a subset of the relation names: computed / TTU / userset references may then
			// point at a relation this type (or a parent type) lacks
			if sparse && ri > 0 && r.Intn(3) == 0 {
				continue
			}
			hasThis := false
			us := g.userset(0, relNames, &hasThis, rn)
			td.Relations[rn] = us
			md := &openfgav1.RelationMetadata{}
			if hasThis {
				md.DirectlyRelatedUserTypes = g.restrictions(terms, objs, relNames)
			} else if r.Intn(2) == 0 {
				// what the DSL reader produces for a relation without direct assignment: an EMPTY, non-nil list
				md.DirectlyRelatedUserTypes = []*openfgav1.RelationReference{}
			}
			if !hasThis && sparseMeta && r.Intn(2) == 0 {
				continue // API-style models carry metadata entries only for relations with type restrictions
			}
			td.Metadata.Relations[rn] = md
		}
		m.TypeDefinitions = append(m.TypeDefinitions, td)
	}
	if opt.Hazards && r.Intn(2) == 0 {
		g.plant(m, terms, objs, relNames, r.Intn(20))
	} else if opt.Shapes && r.Intn(4) == 0 {
		g.plant(m, terms, objs, relNames, []int{12, 13, 14, 15, 17, 18, 19}[r.Intn(7)])
	}
	if opt.PureCycles && r.Intn(3) == 0 && len(relNames) >= 2 {
		// a cycle of pure computed relations of length 2..len
		td := m.TypeDefinitions[len(terms)+r.Intn(len(objs))]
		k := 2 + r.Intn(len(relNames)-1)
		perm := r.Perm(len(relNames))[:k]
		for i, pi := range perm {
			td.Relations[relNames[pi]] = Computed(relNames[perm[(i+1)%k]])
			td.Metadata.Relations[relNames[pi]] = &openfgav1.RelationMetadata{}
		}
	}
	handBuilt(r, m)
	return m
}

// handBuilt gives a share of the models two traits of models assembled in Go code rather than decoded from JSON or
// DSL: (a) a direct assignment written as the bare oneof wrapper, without the (empty) DirectUserset message inside;
// (b) one rewrite value (the same *Userset pointer) used at two places of one relation. Neither changes what the
// model means.
func handBuilt(r *rand.Rand, m *openfgav1.AuthorizationModel) {
	if r.Intn(20) == 0 {
		for _, u := range allUsersets(m) {
			if t, ok := u.GetUserset().(*openfgav1.Userset_This); ok && r.Intn(2) == 0 {
				t.This = nil
			}
		}
	}
	if r.Intn(12) != 0 {
		return
	}
	for _, td := range m.GetTypeDefinitions() {
		for _, root := range td.GetRelations() {
			// slots: (children slice, index) of every operand position, with its path
			type slot struct {
				set  func(*openfgav1.Userset)
				get  *openfgav1.Userset
				path string
			}
			var slots []slot
			var walk func(u *openfgav1.Userset, path string)
			walk = func(u *openfgav1.Userset, path string) {
				var ch []*openfgav1.Userset
				switch rw := u.GetUserset().(type) {
				case *openfgav1.Userset_Union:
					ch = rw.Union.GetChild()
				case *openfgav1.Userset_Intersection:
					ch = rw.Intersection.GetChild()
				case *openfgav1.Userset_Difference:
					d := rw.Difference
					slots = append(slots, slot{func(x *openfgav1.Userset) { d.Base = x }, d.GetBase(), path + "/b"}, slot{func(x *openfgav1.Userset) { d.Subtract = x }, d.GetSubtract(), path + "/s"})
					if d.GetBase() != nil {
						walk(d.GetBase(), path+"/b")
					}
					if d.GetSubtract() != nil {
						walk(d.GetSubtract(), path+"/s")
					}
					return
				}
				for i, c := range ch {
					i, c, ch := i, c, ch
					p := fmt.Sprintf("%s/%d", path, i)
					slots = append(slots, slot{func(x *openfgav1.Userset) { ch[i] = x }, c, p})
					if c != nil {
						walk(c, p)
					}
				}
			}
			if root == nil {
				continue
			}
			walk(root, "")
			if len(slots) < 3 {
				continue
			}
			a, b := slots[r.Intn(len(slots))], slots[r.Intn(len(slots))]
			if a.get == nil || a.path == b.path || strings.HasPrefix(a.path, b.path+"/") || strings.HasPrefix(b.path, a.path+"/") {
				continue
			}
			if a.get.GetThis() != nil || a.get.GetTupleToUserset() != nil {
				continue // DESIGN 7-b: `this` and identical tuple-to-usersets stay unique per operator
			}
			if _, isThis := a.get.GetUserset().(*openfgav1.Userset_This); isThis {
				continue
			}
			// siblings under one operator must not end up with two identical TTUs / `this`: a is neither
			b.set(a.get)
			return
		}
	}
}

func (g *mgen) restrictions(terms, objs, relNames []string) []*openfgav1.RelationReference {
	r := g.r
	n := 1 + r.Intn(4)
	if g.opt.ManyRestrictions {
		n = 1 + r.Intn(14)
	}
	var out []*openfgav1.RelationReference
	for i := 0; i < n; i++ {
		var ref *openfgav1.RelationReference
		k := r.Intn(5 + g.opt.Wildcards)
		switch {
		case k < 3:
			ref = RefType(terms[r.Intn(len(terms))])
		case k < 5:
			ref = RefRel(objs[r.Intn(len(objs))], relNames[r.Intn(len(relNames))])
		default:
			ref = RefWild(terms[r.Intn(len(terms))])
		}
		if g.opt.Conditions && r.Intn(3) == 0 {
			ref.Condition = []string{"c1", "c2", "c3"}[r.Intn(3)]
		}
		out = append(out, ref)
		if g.opt.Conditions && r.Intn(6) == 0 {
			// duplicate of an earlier restriction with another (or the same) condition
			src := out[r.Intn(len(out))]
			dup := &openfgav1.RelationReference{Type: src.GetType(), RelationOrWildcard: src.GetRelationOrWildcard()}
			dup.Condition = []string{"", "c1", "c2"}[r.Intn(3)]
			if r.Intn(3) == 0 {
				// exactly the same restriction again, right after the original
				dup = &openfgav1.RelationReference{Type: ref.GetType(), RelationOrWildcard: ref.GetRelationOrWildcard(), Condition: ref.GetCondition()}
			}
			out = append(out, dup)
		}
	}
	return out
}

func (g *mgen) children(n, depth int, rels []string, hasThis *bool, self string) []*openfgav1.Userset {
	var ch []*openfgav1.Userset
	seen := map[string]bool{}
	for tries := 0; len(ch) < n && tries < 50; tries++ {
		c := g.userset(depth, rels, hasThis, self)
		key := PPUserset(c)
		// DESIGN §7-b: at most one `this` and no two identical TTUs under one operator (the builder merges their
		// edges, after which "operand" is no longer defined). Repeated computed operands and repeated nested
		// operators are legitimate and wanted (C10: "repeated operands").
		mergeable := key == "this" || (c.GetTupleToUserset() != nil)
		if seen[key] && mergeable && !g.opt.FreeThis {
			continue
		}
		seen[key] = true
		ch = append(ch, c)
	}
	for len(ch) < n {
		if n > 6 {
			ch = append(ch, Computed(rels[len(ch)%len(rels)])) // repeated computed operands are legitimate
			continue
		}
		ch = append(ch, TTU(rels[len(ch)%len(rels)], g.tuplesets[len(ch)%len(g.tuplesets)]))
	}
	return ch
}

// spine: d nested operators, one per level, at a random operand position (the ordinary trees have two levels).
func (g *mgen) spine(d int, rels []string, hasThis *bool, self string) *openfgav1.Userset {
	r := g.r
	if d == 0 {
		return g.userset(99, rels, hasThis, self)
	}
	n := 2 + r.Intn(2)
	op := r.Intn(3)
	if op == 2 {
		n = 2
	}
	var all []*openfgav1.Userset
	if d == 1 {
		// the innermost operator has leaves only: children() keeps `this` and identical TTUs unique per operator (DESIGN 7-b)
		all = g.children(n, 99, rels, hasThis, self)
	} else {
		inner := g.spine(d-1, rels, hasThis, self)
		ch := g.children(n-1, 99, rels, hasThis, self)
		at := r.Intn(n)
		all = append(append(append([]*openfgav1.Userset{}, ch[:min(at, len(ch))]...), inner), ch[min(at, len(ch)):]...)
	}
	switch op {
	case 0:
		return Union(all...)
	case 1:
		return Inter(all...)
	}
	return Diff(all[0], all[1])
}

func (g *mgen) userset(depth int, rels []string, hasThis *bool, self string) *openfgav1.Userset {
	r := g.r
	if depth == 0 && r.Intn(16) == 0 {
		d := 3 + r.Intn(6)
		if r.Intn(8) == 0 {
			d = 30 + r.Intn(50)
		}
		return g.spine(d, rels, hasThis, self)
	}
	k := r.Intn(10)
	if depth >= 2 && k >= 6 {
		k = r.Intn(6)
	}
	switch {
	case k < 3:
		*hasThis = true
		return This()
	case k < 5:
		rel := rels[r.Intn(len(rels))]
		if r.Intn(10) != 0 {
			// bias towards lower-indexed relations to keep many models acyclic
			si := 0
			for i, x := range rels {
				if x == self {
					si = i
				}
			}
			if si == 0 {
				*hasThis = true
				return This()
			}
			rel = rels[r.Intn(si)]
		}
		return Computed(rel)
	case k < 6:
		if g.opt.Hazards && r.Intn(12) == 0 {
			// a tuple-to-userset over an ordinary relation: it may have no type restrictions at all, userset or
			// wildcard restrictions, or parent types lacking the computed relation
			return TTU(rels[r.Intn(len(rels))], rels[r.Intn(len(rels))])
		}
		return TTU(rels[r.Intn(len(rels))], g.tupleset())
	case k < 8 || (k < 10 && r.Intn(3) > 0):
		return Union(g.children(g.nChildren(), depth+1, rels, hasThis, self)...)
	case k < 9:
		return Inter(g.children(g.nChildren(), depth+1, rels, hasThis, self)...)
	default:
		ch := g.children(2, depth+1, rels, hasThis, self)
		return Diff(ch[0], ch[1])
	}
}

// plant rewrites one or two relations of one object type with a cycle hazard.
func (g *mgen) plant(m *openfgav1.AuthorizationModel, terms, objs, rels []string, which int) {
	r := g.r
	td := m.TypeDefinitions[len(terms)+r.Intn(len(objs))]
	o := td.GetType()
	a := rels[r.Intn(len(rels))]
	b := rels[r.Intn(len(rels))]
	u := terms[0]
	set := func(rel string, us *openfgav1.Userset, refs ...*openfgav1.RelationReference) {
		td.Relations[rel] = us
		td.Metadata.Relations[rel] = &openfgav1.RelationMetadata{DirectlyRelatedUserTypes: refs}
	}
	u1 := terms[len(terms)-1]
	switch which {
	case 12: // VALID: intersection whose TTU operand fans out to parent types reaching different user types
		if len(objs) >= 2 {
			o2 := objs[(r.Intn(len(objs)-1)+1+indexOf(objs, o))%len(objs)]
			set("p", This(), RefType(o), RefType(o2))
			set(b, This(), RefType(u))
			for _, td2 := range m.TypeDefinitions {
				if td2.GetType() == o2 {
					td2.Relations[b] = This()
					td2.Metadata.Relations[b] = &openfgav1.RelationMetadata{DirectlyRelatedUserTypes: []*openfgav1.RelationReference{RefType(u1)}}
				}
			}
			if a != b {
				set(a, Inter(This(), TTU(b, "p")), RefType(u), RefType(u1))
			}
		}
	case 13: // VALID: exclusion with a multi-type base and a multi-parent TTU subtract
		if a != b {
			set(b, This(), RefType(u1))
			set(a, Diff(This(), TTU(b, "p")), RefType(u), RefType(u1), RefWild(u))
		}
	case 14: // VALID: two TTUs with the same computed relation over different tuplesets under an intersection
		if a != b {
			set("q", This(), RefType(o))
			set(b, This(), RefType(u), RefType(u1))
			set(a, Inter(TTU(b, "p"), TTU(b, "q")))
		}
	case 16, 17: // two TTUs with the same computed relation over different tuplesets whose parents reach DISJOINT user types:
		// 16 INVALID under an intersection (no common type), 17 VALID under an exclusion
		if len(objs) >= 2 && u != u1 && a != b {
			o2 := objs[(r.Intn(len(objs)-1)+1+indexOf(objs, o))%len(objs)]
			set("p", This(), RefType(o))
			set("q", This(), RefType(o2))
			set(b, This(), RefType(u))
			for _, td2 := range m.TypeDefinitions {
				if td2.GetType() == o2 {
					td2.Relations[b] = This()
					if td2.Metadata == nil {
						td2.Metadata = &openfgav1.Metadata{}
					}
					if td2.Metadata.Relations == nil {
						td2.Metadata.Relations = map[string]*openfgav1.RelationMetadata{}
					}
					td2.Metadata.Relations[b] = &openfgav1.RelationMetadata{DirectlyRelatedUserTypes: []*openfgav1.RelationReference{RefType(u1)}}
				}
			}
			if which == 16 {
				set(a, Inter(TTU(b, "p"), TTU(b, "q")))
			} else {
				set(a, Diff(TTU(b, "p"), TTU(b, "q")))
			}
		}
	case 18: // VALID: a tupleset naming its parent type only through a wildcard and / or a userset restriction
		if len(objs) >= 2 && a != b {
			o2 := objs[(r.Intn(len(objs)-1)+1+indexOf(objs, o))%len(objs)]
			refs := []*openfgav1.RelationReference{RefWild(o2)}
			switch r.Intn(3) {
			case 1:
				refs = []*openfgav1.RelationReference{{Type: o2, RelationOrWildcard: &openfgav1.RelationReference_Relation{Relation: b}}}
			case 2:
				refs = append(refs, &openfgav1.RelationReference{Type: o2, RelationOrWildcard: &openfgav1.RelationReference_Relation{Relation: b}})
			}
			set("p", This(), refs...)
			for _, td2 := range m.TypeDefinitions {
				if td2.GetType() == o2 {
					td2.Relations[b] = This()
					if td2.Metadata == nil {
						td2.Metadata = &openfgav1.Metadata{}
					}
					if td2.Metadata.Relations == nil {
						td2.Metadata.Relations = map[string]*openfgav1.RelationMetadata{}
					}
					td2.Metadata.Relations[b] = &openfgav1.RelationMetadata{DirectlyRelatedUserTypes: []*openfgav1.RelationReference{RefType(u)}}
				}
			}
			set(a, Union(This(), TTU(b, "p")), RefType(u1))
		}
	case 19: // VALID: two tuple-to-usersets over ONE tupleset with different computed relations, next to each other
		// under an intersection with a third operand; the two reach different type sets
		if len(rels) >= 3 && u != u1 {
			b2, c2, d2 := rels[0], rels[1], rels[2]
			if a != b2 && a != c2 && a != d2 {
				set("p", This(), RefType(o))
				set(b2, This(), RefType(u), RefType(u1))
				set(c2, This(), RefType(u))
				set(d2, This(), RefType(u), RefType(u1))
				set(a, Inter(TTU(b2, "p"), TTU(c2, "p"), Computed(d2)))
			}
		}
	case 15: // VALID: nested operators mixing all three kinds over one multi-type direct assignment
		if a != b {
			set(b, This(), RefType(u))
			set(a, Union(Inter(This(), Computed(b)), Diff(Computed(b), TTU(b, "p"))), RefType(u), RefType(u1))
		}
	case 0: // tuple-free self loop next to a tuple cycle
		set(a, Union(This(), Computed(a)), RefType(u), RefRel(o, a))
	case 1: // plain self reference
		set(a, Computed(a))
	case 2: // self reference through a union
		set(a, Union(This(), Computed(a)), RefType(u))
	case 3: // pure tuple cycle without terminal
		set(a, TTU(a, "p"))
	case 4: // userset self reference only
		set(a, This(), RefRel(o, a))
	case 5: // two relations, rewrite cycle, one also on a tuple cycle
		if a != b {
			set(a, Union(This(), TTU(a, "p"), Computed(b)), RefType(u))
			set(b, Computed(a))
		}
	case 6: // valid look-alike: b reaches a through a hop only
		if a != b {
			set(a, Union(This(), TTU(b, "p")), RefType(u))
			set(b, Union(This(), TTU(a, "p")), RefType(u))
		}
	case 7: // intersection on a tuple cycle
		set(a, Inter(This(), TTU(a, "p")), RefType(u))
	case 8: // exclusion on a tuple cycle (subtract side)
		set(a, Diff(This(), TTU(a, "p")), RefType(u))
	case 9: // relation reachable from a cycle node through a hop path and through a rewrite edge
		if a != b {
			set(a, Union(This(), Computed(b)), RefType(u), RefRel(o, b))
			set(b, Union(This(), TTU(a, "p")), RefType(u))
		}
	case 10: // rewrite cycle through an intersection
		if a != b {
			set(a, Inter(This(), Computed(b)), RefType(u))
			set(b, Union(This(), Computed(a)), RefType(u))
		}
	case 11: // rewrite cycle through nested operators behind a tuple cycle
		if a != b {
			set(a, Union(This(), Inter(Computed(b), This())), RefType(u), RefRel(o, a))
			set(b, Diff(Computed(a), TTU(a, "p")))
		}
	}
}

func indexOf(xs []string, x string) int {
	for i, v := range xs {
		if v == x {
			return i
		}
	}
	return 0
}

// ---- pretty printers (witness display and structural keys) ----

func PPUserset(us *openfgav1.Userset) string {
	switch rw := us.GetUserset().(type) {
	case *openfgav1.Userset_This:
		return "this"
	case *openfgav1.Userset_ComputedUserset:
		return rw.ComputedUserset.GetRelation()
	case *openfgav1.Userset_TupleToUserset:
		return rw.TupleToUserset.GetComputedUserset().GetRelation() + " from " + rw.TupleToUserset.GetTupleset().GetRelation()
	case *openfgav1.Userset_Union:
		var p []string
		for _, c := range rw.Union.GetChild() {
			p = append(p, PPUserset(c))
		}
		return "(" + strings.Join(p, " or ") + ")"
	case *openfgav1.Userset_Intersection:
		var p []string
		for _, c := range rw.Intersection.GetChild() {
			p = append(p, PPUserset(c))
		}
		return "(" + strings.Join(p, " and ") + ")"
	case *openfgav1.Userset_Difference:
		return "(" + PPUserset(rw.Difference.GetBase()) + " but not " + PPUserset(rw.Difference.GetSubtract()) + ")"
	}
	return "?"
}

func PPRef(ref *openfgav1.RelationReference) string {
	s := ref.GetType()
	if ref.GetWildcard() != nil {
		s += ":*"
	}
	if ref.GetRelation() != "" {
		s += "#" + ref.GetRelation()
	}
	if ref.GetCondition() != "" {
		s += " with " + ref.GetCondition()
	}
	return s
}

// PPModel prints a model in a compact DSL-like notation that can express every rewrite tree.
func PPModel(m *openfgav1.AuthorizationModel) string {
	var sb strings.Builder
	for _, td := range m.GetTypeDefinitions() {
		fmt.Fprintf(&sb, "type %s\n", td.GetType())
		var rs []string
		for r := range td.GetRelations() {
			rs = append(rs, r)
		}
		sort.Strings(rs)
		for _, r := range rs {
			var refs []string
			for _, ref := range td.GetMetadata().GetRelations()[r].GetDirectlyRelatedUserTypes() {
				refs = append(refs, PPRef(ref))
			}
			fmt.Fprintf(&sb, "  %s: %s   this=[%s]\n", r, PPUserset(td.GetRelations()[r]), strings.Join(refs, ", "))
		}
	}
	return sb.String()
}

// CloneExact is proto.Clone that keeps the one Go-level trait Clone normalises away and the library can tell apart:
// a direct assignment written as the bare oneof wrapper (nil DirectUserset) stays bare in the copy.
func CloneExact(m *openfgav1.AuthorizationModel) *openfgav1.AuthorizationModel {
	c := proto.Clone(m).(*openfgav1.AuthorizationModel)
	var walk func(a, b *openfgav1.Userset)
	walk = func(a, b *openfgav1.Userset) {
		if a == nil || b == nil {
			return
		}
		switch ra := a.GetUserset().(type) {
		case *openfgav1.Userset_This:
			if rb, ok := b.GetUserset().(*openfgav1.Userset_This); ok && ra.This == nil {
				rb.This = nil
			}
		case *openfgav1.Userset_Union:
			for i, k := range ra.Union.GetChild() {
				if i < len(b.GetUnion().GetChild()) {
					walk(k, b.GetUnion().GetChild()[i])
				}
			}
		case *openfgav1.Userset_Intersection:
			for i, k := range ra.Intersection.GetChild() {
				if i < len(b.GetIntersection().GetChild()) {
					walk(k, b.GetIntersection().GetChild()[i])
				}
			}
		case *openfgav1.Userset_Difference:
			walk(ra.Difference.GetBase(), b.GetDifference().GetBase())
			walk(ra.Difference.GetSubtract(), b.GetDifference().GetSubtract())
		}
	}
	for i, td := range m.GetTypeDefinitions() {
		if i >= len(c.GetTypeDefinitions()) || td == nil || c.TypeDefinitions[i] == nil {
			continue
		}
		for rn, u := range td.GetRelations() {
			walk(u, c.TypeDefinitions[i].GetRelations()[rn])
		}
	}
	return c
}
