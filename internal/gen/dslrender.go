package gen

import (
	"math/rand"
	"strings"
)

type Layout struct {
	Choose   func(n int) int // if set, replaces the PRNG (exhaustive enumeration)
	Small    bool            // reduced option sets
	R        *rand.Rand
	Wild     bool // false => canonical-ish minimal layout
	CRLF     bool
	Comments bool
	// ExprComments: trailing ' # ...' comments also after the lines of a condition expression (the pre-pass strips
	// them there as everywhere else)
	ExprComments bool
	sb           strings.Builder
	ln, cl       int
	// Long > 0: one full-line comment of that many characters is written at the first line break after the header
	// (lines longer than the 64 KiB default buffers of line readers)
	Long     int
	longDone bool
	// Mixed: every line end is drawn separately (LF or CRLF): files edited on two platforms
	Mixed bool
	// positions
	Pos map[string][2]int // key -> line, col (0-based) of name occurrences
}

func (l *Layout) pick(n int) int {
	if l.Choose != nil {
		return l.Choose(n)
	}
	if l.R == nil {
		return 0 // canonical layout without a PRNG
	}
	return l.R.Intn(n)
}

func (l *Layout) line() int { return l.ln }
func (l *Layout) col() int  { return l.cl }
func (l *Layout) mark(key string) {
	if l.Pos == nil {
		l.Pos = map[string][2]int{}
	}
	l.Pos[key] = [2]int{l.line(), l.col()}
}
func (l *Layout) w(s string) {
	l.sb.WriteString(s)
	for _, c := range s {
		if c == '\n' {
			l.ln++
			l.cl = 0
		} else {
			l.cl++
		}
	}
}

// required whitespace
func (l *Layout) ws() {
	if !l.Wild {
		l.w(" ")
		return
	}
	if l.Small {
		l.w([]string{" ", "\t"}[l.pick(2)])
		return
	}
	l.w([]string{" ", " ", " ", "  ", "\t", " \t", "   "}[l.pick(7)])
}

// optional whitespace
func (l *Layout) ows(def string) {
	if !l.Wild {
		l.w(def)
		return
	}
	if l.Small {
		l.w([]string{"", " "}[l.pick(2)])
		return
	}
	l.w([]string{"", "", " ", "  ", "\t"}[l.pick(5)])
}
func (l *Layout) eol() {
	if l.Small {
		switch l.pick(3) {
		case 1:
			l.w(" ")
		case 2:
			l.w(" # c")
		}
		l.eolBare()
		return
	}
	if l.Wild && l.pick(6) == 0 {
		l.w(strings.Repeat(" ", 1+l.pick(3))) // trailing spaces
	}
	if l.Comments && l.pick(5) == 0 {
		l.w(" # " + []string{"trailing", "type x", "define y: [z]", "# more", "", "condition c(x: int) {"}[l.pick(6)])
	}
	l.eolBare()
}

// newline(s) followed by indentation for a code line
func (l *Layout) nl(indent string) {
	l.eol()
	if l.Long > 0 && !l.longDone && l.ln >= 1 {
		l.longDone = true
		l.w("# " + strings.Repeat("x", l.Long))
		l.eolBare()
	}
	if l.Small {
		switch l.pick(3) {
		case 1:
			l.eolBare()
		case 2:
			l.w("  # x")
			l.eolBare()
		}
		l.w([]string{"", indent, "\t"}[l.pick(3)])
		return
	}
	if l.Wild {
		for l.pick(4) == 0 {
			// blank or comment line
			switch l.pick(3) {
			case 0:
				l.eolBare()
			case 1:
				l.w(strings.Repeat(" ", l.pick(5)))
				l.eolBare()
			case 2:
				if l.Comments {
					l.w(strings.Repeat(" ", l.pick(5)) + "#" + []string{" comment", "type user", " define x: y", "", "#"}[l.pick(5)])
				}
				l.eolBare()
			}
		}
		indent = []string{"", " ", "  ", "    ", "\t", "\t\t", "      ", indent, indent}[l.pick(9)]
	}
	l.w(indent)
}
func (l *Layout) eolBare() {
	if l.Mixed {
		if l.pick(2) == 0 {
			l.w("\r\n")
		} else {
			l.w("\n")
		}
		return
	}
	if l.CRLF {
		l.w("\r\n")
	} else {
		l.w("\n")
	}
}

func (d *Doc) Render(l *Layout) string {
	if l.Wild && l.pick(4) == 0 {
		// leading comment / blank lines
		if l.Comments && l.pick(2) == 0 {
			l.w("# leading comment")
			l.eolBare()
		} else {
			l.eolBare()
		}
	}
	if d.Module != "" {
		l.w("module")
		l.ws()
		l.w(d.Module)
	} else {
		l.w("model")
		l.nl("  ")
		l.w("schema")
		l.ws()
		l.w(d.Schema)
	}
	for ti, t := range d.Types {
		if !l.Wild {
			l.eol()
		}
		l.nl("")
		if t.Extend {
			l.w("extend")
			l.ws()
		}
		l.w("type")
		l.ws()
		l.mark("type:" + itoa(ti))
		l.w(t.Name)
		if len(t.Rels) > 0 {
			l.nl("  ")
			l.w("relations")
			for ri, r := range t.Rels {
				l.nl("    ")
				l.w("define")
				l.ws()
				l.mark("rel:" + itoa(ti) + ":" + itoa(ri))
				l.w(r.Name)
				l.ows("")
				l.w(":")
				l.ows(" ")
				r.Expr.render(l)
			}
		}
	}
	for ci, c := range d.Conds {
		if !l.Wild {
			l.eol()
		}
		l.nl("")
		l.w("condition")
		l.ws()
		l.mark("cond:" + itoa(ci))
		l.w(c.Name)
		l.ows("")
		l.w("(")
		l.ows("")
		for pi, p := range c.Params {
			if pi > 0 {
				l.w(",")
				l.ows(" ")
			}
			l.mark("param:" + itoa(ci) + ":" + itoa(pi))
			l.w(p.Name)
			l.ows("")
			l.w(":")
			l.ows(" ")
			if p.Generic != "" {
				l.w(p.Type + "<" + p.Generic + ">")
			} else {
				l.w(p.Type)
			}
			l.ows("")
		}
		l.w(")")
		l.ows(" ")
		l.w("{")
		l.nl("  ")
		// expression lines
		lines := strings.Split(c.Expr, "\n")
		for i, ln := range lines {
			if i > 0 {
				l.eolBare()
			}
			l.w(ln)
			if l.ExprComments && l.pick(3) == 0 {
				l.w(" # " + []string{"note", "it's", "say \"x\"", "}", "ü"}[l.pick(5)])
			}
		}
		l.nl("")
		l.w("}")
	}
	if !l.Wild || l.pick(2) == 0 {
		l.eol()
		if l.Small {
			if l.pick(2) == 1 {
				l.eolBare()
			}
		} else if l.Wild {
			for l.pick(3) == 0 {
				l.eolBare()
			}
		}
	}
	return l.sb.String()
}

func itoa(i int) string { return string(rune('0'+i/10)) + string(rune('0'+i%10)) }

func (e *Expr) render(l *Layout) {
	switch e.Kind {
	case "direct":
		l.w("[")
		if len(e.Restr) == 0 && e.Name == "space" {
			l.w(" ")
		}
		multi := l.Wild && l.pick(4) == 0
		for i, rs := range e.Restr {
			if i > 0 {
				l.w(",")
			}
			if multi {
				l.nl("      ")
			} else if i > 0 {
				l.ows(" ")
			} else {
				l.ows("")
			}
			l.w(rs.Type)
			if rs.Wildcard && rs.Relation != "" {
				if l.pick(2) == 0 {
					l.w(":*#" + rs.Relation)
				} else {
					l.w("#" + rs.Relation + ":*")
				}
			} else if rs.Wildcard {
				l.w(":*")
			} else if rs.Relation != "" {
				l.w("#" + rs.Relation)
			}
			if rs.Cond != "" {
				l.ws()
				l.w("with")
				l.ws()
				l.w(rs.Cond)
			}
			if !multi {
				l.ows("")
			}
		}
		if multi {
			l.nl("    ")
		}
		l.w("]")
	case "computed":
		l.w(e.Name)
	case "ttu":
		l.w(e.Name)
		l.ws()
		l.w("from")
		l.ws()
		l.w(e.Tupleset)
	case "paren":
		l.w("(")
		l.ows("")
		e.Kids[0].render(l)
		l.ows("")
		l.w(")")
	case "mixed":
		ops := strings.Split(e.Name, ",")
		for i, k := range e.Kids {
			if i > 0 {
				l.ws()
				l.w(ops[i-1])
				l.ws()
			}
			k.render(l)
		}
	default:
		op := map[string]string{"or": "or", "and": "and", "butnot": "but not"}[e.Kind]
		for i, k := range e.Kids {
			if i > 0 {
				l.ws()
				l.w(op)
				l.ws()
			}
			k.render(l)
		}
	}
}
