package gen

import (
	"math/rand"
	"os"
	"path/filepath"
	"sort"
	"strings"

	"gopkg.in/yaml.v3"
)

// ---- G4: grammar-aware mutation of the shared corpus ----

// RepoDir is the repository under test.
func RepoDir() string {
	if e := os.Getenv("VERIF_REPO"); e != "" {
		return e
	}
	return "/repo"
}

// Tokens is the lexer vocabulary (literals, layout, hostile characters) used for insertions.
var Tokens = []string{"model", "module", "schema", "1.1", "type", "extend", "relations", "define", "condition", "with", "from", "and", "or", "but not",
	"[", "]", "(", ")", ":", ",", "#", "*", "{", "}", "<", ">", "list", "map", "int", "string", "\n", "\n  ", "\n    ", " ", "\t", "x", "user", "\r\n", "\r",
	"\"", "'", "//", "\\", "\f", "\x00", "é", "a.b", "-", "==", "&&", "||", "!", "?", "+", "/", "%", ".", "1", "1u", "0x1F", "1.5e3", "true", "null", "in", "relation", "b\"x\"", "r'x'", "\"\"\"", "$", "@", ";", "=", "&", "|", "~", "^",
	// comment openers next to string delimiters (the comment pre-pass works on raw lines, the lexer on what is left)
	"\" #\"", "\"a #\"", " #", "\"x # y\"", "' #'", " # \"", "\" # c", "#\"", " #\n",
	" ", " "}

// Corpus loads the DSL texts of the repository's shared test data (sorted, deterministic).
func Corpus() []string {
	var files []string
	root := filepath.Join(RepoDir(), "tests", "data")
	filepath.Walk(root, func(p string, info os.FileInfo, err error) error {
		if err == nil && !info.IsDir() && (strings.HasSuffix(p, ".fga") || strings.HasSuffix(p, ".fga.skip")) {
			files = append(files, p)
		}
		return nil
	})
	sort.Strings(files)
	var corpus []string
	for _, f := range files {
		b, err := os.ReadFile(f)
		if err == nil {
			corpus = append(corpus, string(b))
		}
	}
	for _, name := range []string{"dsl-syntax-validation-cases.yaml", "dsl-semantic-validation-cases.yaml", "transformer-dsl-json-cases.yaml"} {
		b, err := os.ReadFile(filepath.Join(root, name))
		if err != nil {
			continue
		}
		var cases []struct {
			DSL string `yaml:"dsl"`
		}
		if yaml.Unmarshal(b, &cases) == nil {
			for _, c := range cases {
				if c.DSL != "" {
					corpus = append(corpus, c.DSL)
				}
			}
		}
	}
	return corpus
}

// ModFiles loads the fga.mod examples of the shared test data.
func ModCorpus() []string {
	var out []string
	root := filepath.Join(RepoDir(), "tests", "data")
	filepath.Walk(root, func(p string, info os.FileInfo, err error) error {
		if err == nil && !info.IsDir() && (strings.HasSuffix(p, ".mod") || strings.HasSuffix(p, "fga.mod")) {
			if b, e := os.ReadFile(p); e == nil {
				out = append(out, string(b))
			}
		}
		return nil
	})
	b, err := os.ReadFile(filepath.Join(root, "fga-mod-transformer-cases.yaml"))
	if err == nil {
		var cases []struct {
			ModFile string `yaml:"modFile"`
		}
		if yaml.Unmarshal(b, &cases) == nil {
			for _, c := range cases {
				out = append(out, c.ModFile)
			}
		}
	}
	sort.Strings(out)
	return out
}

// Mutate applies 1..4 token/line level mutations.
func Mutate(r *rand.Rand, s string) string {
	n := 1 + r.Intn(4)
	for i := 0; i < n; i++ {
		if len(s) == 0 {
			s = Tokens[r.Intn(len(Tokens))]
			continue
		}
		p := r.Intn(len(s) + 1)
		switch r.Intn(10) {
		case 8: // delete one word (identifier, keyword or number)
			if ws := wordSpans(s); len(ws) > 0 {
				w := ws[r.Intn(len(ws))]
				s = s[:w[0]] + s[w[1]:]
			}
		case 9: // replace one word by another word of the text or a keyword
			if ws := wordSpans(s); len(ws) > 0 {
				w := ws[r.Intn(len(ws))]
				var by string
				if r.Intn(2) == 0 {
					o := ws[r.Intn(len(ws))]
					by = s[o[0]:o[1]]
				} else {
					by = Tokens[r.Intn(14)]
				}
				s = s[:w[0]] + by + s[w[1]:]
			}
		case 0: // insert token
			s = s[:p] + Tokens[r.Intn(len(Tokens))] + s[p:]
		case 1: // delete span
			q := p + r.Intn(12)
			if q > len(s) {
				q = len(s)
			}
			s = s[:p] + s[q:]
		case 2: // duplicate line
			lines := strings.Split(s, "\n")
			k := r.Intn(len(lines))
			lines = append(lines[:k+1], lines[k:]...)
			s = strings.Join(lines, "\n")
		case 3: // delete line
			lines := strings.Split(s, "\n")
			k := r.Intn(len(lines))
			lines = append(lines[:k], lines[k+1:]...)
			s = strings.Join(lines, "\n")
		case 4: // truncate
			s = s[:p]
		case 5: // replace char
			if p < len(s) {
				s = s[:p] + Tokens[r.Intn(len(Tokens))] + s[p+1:]
			}
		case 6: // swap two lines
			lines := strings.Split(s, "\n")
			a, b := r.Intn(len(lines)), r.Intn(len(lines))
			lines[a], lines[b] = lines[b], lines[a]
			s = strings.Join(lines, "\n")
		case 7: // copy a span of the text elsewhere
			q := p + 1 + r.Intn(20)
			if q > len(s) {
				q = len(s)
			}
			at := r.Intn(len(s) + 1)
			s = s[:at] + s[p:q] + s[at:]
		}
	}
	return s
}

// wordSpans returns the [start,end) byte spans of the identifier-like words of s.
func wordSpans(s string) [][2]int {
	var out [][2]int
	start := -1
	for i := 0; i <= len(s); i++ {
		isW := i < len(s) && (s[i] == '_' || s[i] == '.' || s[i] >= '0' && s[i] <= '9' || s[i] >= 'a' && s[i] <= 'z' || s[i] >= 'A' && s[i] <= 'Z')
		if isW && start < 0 {
			start = i
		}
		if !isW && start >= 0 {
			out = append(out, [2]int{start, i})
			start = -1
		}
	}
	return out
}
