package gen

import (
	"fmt"
	"math/rand"
	"strings"

	openfgav1 "github.com/openfga/api/proto/openfga/v1"
)

type Restriction struct {
	Type     string
	Wildcard bool
	Relation string
	Cond     string
}

type Expr struct {
	Kind     string // direct, computed, ttu, or, and, butnot, paren
	Name     string // computed / ttu computed
	Tupleset string
	Restr    []Restriction
	Kids     []*Expr
}

type Relation struct {
	Name string
	Expr *Expr
}
type TypeDef struct {
	Name   string
	Extend bool
	Rels   []Relation
}
type Param struct {
	Name, Type, Generic string
}
type Cond struct {
	Name   string
	Params []Param
	Expr   string // may contain newlines
}
type Doc struct {
	Module string // "" => model file
	Schema string
	Types  []TypeDef
	Conds  []Cond
}

var keywordsAsNames = []string{"model", "schema", "type", "relation", "module", "extend"}
var plainNames = []string{"Viewer", "VIEWER", "A", "B1", "user", "group", "doc", "folder", "org", "viewer", "editor", "owner", "member", "parent", "admin", "can_view", "a", "b1", "_x", "r", "b", "x-y", "a-", "with1", "fromage", "android", "order", "define1", "relations2", "types", "models", "typed"}
var extNames = []string{"a.b", "a/b", "a.b/c", "_.a_/_b._", "x1.y2", "app/doc.viewer", "a-b.c", "acme/user-group", "can.view-all", "x_1-y/z.w"}

type DSLGen struct {
	R *rand.Rand
	// Big: many types / relations / conditions / parameters / restrictions / operands (beyond the small-slice
	// thresholds of sort and of hand-written fast paths). Set per document by Doc with probability 1/40.
	Big       bool
	ForceDeep int // when > 0 the next relation generated is a spine of that many nested groups
}

func (g *DSLGen) pick(xs []string) string { return xs[g.R.Intn(len(xs))] }

func (g *DSLGen) name(ext bool) string {
	switch k := g.R.Intn(10); {
	case k == 0:
		return g.pick(keywordsAsNames)
	case k <= 2 && ext:
		return g.pick(extNames)
	default:
		return g.pick(plainNames)
	}
}

func (g *DSLGen) distinct(n int, ext bool) []string {
	seen := map[string]bool{}
	var out []string
	for tries := 0; len(out) < n; tries++ {
		x := g.name(ext)
		if tries > 20*n {
			x = fmt.Sprintf("%s_%d", x, tries) // pool exhausted: derive further names
		}
		if !seen[x] {
			seen[x] = true
			out = append(out, x)
		}
	}
	return out
}

var paramTypes = []string{"bool", "string", "int", "uint", "double", "duration", "timestamp", "ipaddress"}
var condNames = []string{"c1", "is_valid", "non_expired", "in_range", "x-cond", "_c", "cond2"}
var condExprs = []string{
	"x % 2 == 0", "s == \"100%\" || x % y > 0",
	"s == \"naïve ü 日本\"", "'😀' in l",
	"x < 10", "a == b && c != d", "x in [1, 2, 3]", "ip.in_cidr(cidr)", "t + d > now",
	"m[\"k\"] == 'v'", "!(a || b) ? c : d", "x > 1.5e3 && y <= 0x1F", "s.startsWith(\"a b\")",
	"a ==\n    b", "size(l) >= 1u", "-x * (y / z) - 1", "true || false || null == x",
	"b\"bytes\" == y", "r'raw' == y", "x == 1",
	"", " ", "a ==\n\n    b", "tag == \"release#42\" || c == '#'", "name != \"a\\\"b\"", "s == 'it\\'s'", "x == \"5\\\"\" || y == \"\\\\\"",
}

func (g *DSLGen) Doc(modular bool) *Doc {
	r := g.R
	d := &Doc{Schema: []string{"1.1", "1.2", "1.0", "2.10"}[r.Intn(4)]}
	if modular {
		d.Module = g.pick([]string{"core", "org", "model", "type", "a-b", "extend", "m1"})
	}
	g.Big = r.Intn(40) == 0
	nT := r.Intn(5)
	if g.Big {
		nT = 8 + r.Intn(10)
	}
	tnames := g.distinct(nT, true)
	nC := 0
	if r.Intn(3) == 0 {
		nC = 1 + r.Intn(3)
	}
	if g.Big {
		nC = 5 + r.Intn(3)
	}
	cn := map[string]bool{}
	for len(d.Conds) < nC {
		n := g.pick(condNames)
		if cn[n] {
			continue
		}
		cn[n] = true
		c := Cond{Name: n, Expr: g.pick(condExprs)}
		np := 1 + r.Intn(3)
		if g.Big {
			np = 8 + r.Intn(5)
		}
		pn := map[string]bool{}
		for len(c.Params) < np {
			p := g.pick([]string{"x", "X", "y", "a", "ip", "cidr", "now", "t", "l", "m", "param_1", "p-q", "model", "type", "b", "c", "d", "e1", "f_2", "g-h"})
			if pn[p] {
				continue
			}
			pn[p] = true
			pt := Param{Name: p, Type: g.pick(paramTypes)}
			if r.Intn(4) == 0 {
				pt.Generic = pt.Type
				pt.Type = g.pick([]string{"list", "map"})
			}
			c.Params = append(c.Params, pt)
		}
		d.Conds = append(d.Conds, c)
	}
	var condList []string
	for _, c := range d.Conds {
		condList = append(condList, c.Name)
	}
	for _, tn := range tnames {
		td := TypeDef{Name: tn}
		if modular && r.Intn(4) == 0 {
			td.Extend = true
		}
		nR := r.Intn(5)
		if r.Intn(4) == 0 {
			nR = 0
		}
		if g.Big && r.Intn(3) == 0 {
			nR = 13 + r.Intn(12)
		}
		rn := g.distinct(nR, true)
		for _, n := range rn {
			td.Rels = append(td.Rels, Relation{Name: n, Expr: g.relDef(0, tnames, rn, condList, true)})
		}
		d.Types = append(d.Types, td)
	}
	return d
}

func (g *DSLGen) restrictions(tnames, rnames, conds []string) []Restriction {
	n := 1 + g.R.Intn(4)
	if g.Big && g.R.Intn(3) == 0 {
		n = 13 + g.R.Intn(8)
	}
	var out []Restriction
	for i := 0; i < n; i++ {
		rs := Restriction{Type: g.pick(tnames)}
		switch g.R.Intn(5) {
		case 0:
			rs.Wildcard = true
		case 1:
			if len(rnames) > 0 {
				rs.Relation = g.pick(rnames)
			}
		}
		if len(conds) > 0 && g.R.Intn(3) == 0 {
			rs.Cond = g.pick(conds)
		}
		out = append(out, rs)
	}
	return out
}

func (g *DSLGen) leaf(rnames []string) *Expr {
	if g.R.Intn(3) == 0 {
		return &Expr{Kind: "ttu", Name: g.nameOr(rnames), Tupleset: g.nameOr(rnames)}
	}
	return &Expr{Kind: "computed", Name: g.nameOr(rnames)}
}
func (g *DSLGen) nameOr(rnames []string) string {
	if len(rnames) > 0 && g.R.Intn(5) != 0 {
		return g.pick(rnames)
	}
	return g.name(true)
}

// relDef generates: (direct | leaf | paren(relDef)) partials?   ; allowDirect says whether a direct may appear at the leftmost position
func (g *DSLGen) relDef(depth int, tnames, rnames, conds []string, allowDirect bool) *Expr {
	r := g.R
	if depth == 0 && g.ForceDeep > 0 {
		d := g.ForceDeep // beyond any plausible fixed recursion / stack limit; parsing is quadratic in the depth
		g.ForceDeep = 0
		return g.spine(d, tnames, rnames, conds, allowDirect)
	}
	if depth == 0 && r.Intn(14) == 0 {
		// "all nesting depths": a spine of 4-10 nested groups (the ordinary trees stop at depth 3)
		return g.spine(4+r.Intn(7), tnames, rnames, conds, allowDirect)
	}
	var first *Expr
	switch k := r.Intn(10); {
	case allowDirect && k < 4:
		first = &Expr{Kind: "direct", Restr: g.restrictions(tnames, rnames, conds)}
	case k < 8 || depth >= 3:
		first = g.leaf(rnames)
	default:
		first = &Expr{Kind: "paren", Kids: []*Expr{g.relDef(depth+1, tnames, rnames, conds, allowDirect)}}
	}
	if depth >= 3 || r.Intn(3) == 0 {
		return first
	}
	op := []string{"or", "and", "butnot"}[r.Intn(3)]
	n := 1
	if op != "butnot" {
		n = 1 + r.Intn(3)
		if r.Intn(7) == 0 {
			n = 4 + r.Intn(7) // 5-11 operands: slices that have grown once or twice (spare capacity, re-allocation points)
		}
		if g.Big && r.Intn(4) == 0 {
			n = 13 + r.Intn(6)
		}
	}
	e := &Expr{Kind: op, Kids: []*Expr{first}}
	for i := 0; i < n; i++ {
		if r.Intn(4) == 0 && depth < 3 {
			e.Kids = append(e.Kids, &Expr{Kind: "paren", Kids: []*Expr{g.relDef(depth+1, tnames, rnames, conds, false)}})
		} else {
			e.Kids = append(e.Kids, g.leaf(rnames))
		}
	}
	return e
}

// spine: d nested parenthesised groups, one per level, the group being the first operand or a later one; a direct
// assignment only ever at a leftmost position.
func (g *DSLGen) spine(d int, tnames, rnames, conds []string, allowDirect bool) *Expr {
	r := g.R
	if d == 0 {
		if allowDirect && r.Intn(2) == 0 {
			return &Expr{Kind: "direct", Restr: g.restrictions(tnames, rnames, conds)}
		}
		return g.leaf(rnames)
	}
	op := []string{"or", "and", "butnot"}[r.Intn(3)]
	innerFirst := r.Intn(2) == 0
	var first *Expr
	switch {
	case innerFirst:
		first = &Expr{Kind: "paren", Kids: []*Expr{g.spine(d-1, tnames, rnames, conds, allowDirect)}}
	case allowDirect && r.Intn(3) == 0:
		first = &Expr{Kind: "direct", Restr: g.restrictions(tnames, rnames, conds)}
	default:
		first = g.leaf(rnames)
	}
	n := 1
	if op != "butnot" {
		n = 1 + r.Intn(2)
	}
	e := &Expr{Kind: op, Kids: []*Expr{first}}
	slot := r.Intn(n)
	for i := 0; i < n; i++ {
		if !innerFirst && i == slot {
			e.Kids = append(e.Kids, &Expr{Kind: "paren", Kids: []*Expr{g.spine(d-1, tnames, rnames, conds, false)}})
		} else {
			e.Kids = append(e.Kids, g.leaf(rnames))
		}
	}
	return e
}

// ---------- expected model ----------
func (e *Expr) userset(restr *[]Restriction) *openfgav1.Userset {
	switch e.Kind {
	case "direct":
		*restr = e.Restr
		return &openfgav1.Userset{Userset: &openfgav1.Userset_This{This: &openfgav1.DirectUserset{}}}
	case "computed":
		return &openfgav1.Userset{Userset: &openfgav1.Userset_ComputedUserset{ComputedUserset: &openfgav1.ObjectRelation{Relation: e.Name}}}
	case "ttu":
		return &openfgav1.Userset{Userset: &openfgav1.Userset_TupleToUserset{TupleToUserset: &openfgav1.TupleToUserset{
			ComputedUserset: &openfgav1.ObjectRelation{Relation: e.Name}, Tupleset: &openfgav1.ObjectRelation{Relation: e.Tupleset}}}}
	case "paren":
		return e.Kids[0].userset(restr)
	}
	var ch []*openfgav1.Userset
	for _, k := range e.Kids {
		ch = append(ch, k.userset(restr))
	}
	switch e.Kind {
	case "or":
		return &openfgav1.Userset{Userset: &openfgav1.Userset_Union{Union: &openfgav1.Usersets{Child: ch}}}
	case "and":
		return &openfgav1.Userset{Userset: &openfgav1.Userset_Intersection{Intersection: &openfgav1.Usersets{Child: ch}}}
	case "butnot":
		return &openfgav1.Userset{Userset: &openfgav1.Userset_Difference{Difference: &openfgav1.Difference{Base: ch[0], Subtract: ch[1]}}}
	}
	panic(e.Kind)
}

func (d *Doc) Expected() (*openfgav1.AuthorizationModel, map[string]*openfgav1.TypeDefinition) {
	m := &openfgav1.AuthorizationModel{Conditions: map[string]*openfgav1.Condition{}}
	ext := map[string]*openfgav1.TypeDefinition{}
	modular := d.Module != ""
	if !modular {
		m.SchemaVersion = d.Schema
	}
	for _, t := range d.Types {
		td := &openfgav1.TypeDefinition{Type: t.Name, Relations: map[string]*openfgav1.Userset{}, Metadata: &openfgav1.Metadata{Relations: map[string]*openfgav1.RelationMetadata{}}}
		if modular {
			td.Metadata.Module = d.Module
		}
		for _, r := range t.Rels {
			var restr []Restriction
			td.Relations[r.Name] = r.Expr.userset(&restr)
			md := &openfgav1.RelationMetadata{DirectlyRelatedUserTypes: []*openfgav1.RelationReference{}}
			for _, rs := range restr {
				ref := &openfgav1.RelationReference{Type: rs.Type, Condition: rs.Cond}
				if rs.Wildcard {
					ref.RelationOrWildcard = &openfgav1.RelationReference_Wildcard{Wildcard: &openfgav1.Wildcard{}}
				} else if rs.Relation != "" {
					ref.RelationOrWildcard = &openfgav1.RelationReference_Relation{Relation: rs.Relation}
				}
				md.DirectlyRelatedUserTypes = append(md.DirectlyRelatedUserTypes, ref)
			}
			if modular && t.Extend {
				md.Module = d.Module
			}
			td.Metadata.Relations[r.Name] = md
		}
		if len(t.Rels) == 0 {
			if modular {
				td.Metadata.Relations = nil
			} else {
				td.Metadata = nil
			}
		}
		m.TypeDefinitions = append(m.TypeDefinitions, td)
		if t.Extend {
			ext[t.Name] = td
		}
	}
	for _, c := range d.Conds {
		pc := &openfgav1.Condition{Name: c.Name, Expression: c.Expr, Parameters: map[string]*openfgav1.ConditionParamTypeRef{}}
		for _, p := range c.Params {
			ref := &openfgav1.ConditionParamTypeRef{TypeName: openfgav1.ConditionParamTypeRef_TypeName(openfgav1.ConditionParamTypeRef_TypeName_value["TYPE_NAME_"+strings.ToUpper(p.Type)])}
			if p.Generic != "" {
				ref.GenericTypes = []*openfgav1.ConditionParamTypeRef{{TypeName: openfgav1.ConditionParamTypeRef_TypeName(openfgav1.ConditionParamTypeRef_TypeName_value["TYPE_NAME_"+strings.ToUpper(p.Generic)])}}
			}
			pc.Parameters[p.Name] = ref
		}
		if modular {
			pc.Metadata = &openfgav1.ConditionMetadata{Module: d.Module}
		}
		m.Conditions[c.Name] = pc
	}
	return m, ext
}

// Clone deep-copies a document.
func (d *Doc) Clone() *Doc {
	c := &Doc{Module: d.Module, Schema: d.Schema}
	for _, t := range d.Types {
		nt := TypeDef{Name: t.Name, Extend: t.Extend}
		for _, r := range t.Rels {
			nt.Rels = append(nt.Rels, Relation{Name: r.Name, Expr: r.Expr.Clone()})
		}
		c.Types = append(c.Types, nt)
	}
	for _, cd := range d.Conds {
		nc := Cond{Name: cd.Name, Expr: cd.Expr, Params: append([]Param{}, cd.Params...)}
		c.Conds = append(c.Conds, nc)
	}
	return c
}

func (e *Expr) Clone() *Expr {
	if e == nil {
		return nil
	}
	c := &Expr{Kind: e.Kind, Name: e.Name, Tupleset: e.Tupleset, Restr: append([]Restriction{}, e.Restr...)}
	if e.Restr == nil {
		c.Restr = nil
	}
	for _, k := range e.Kids {
		c.Kids = append(c.Kids, k.Clone())
	}
	return c
}

// Walk visits every expression node (pre-order).
func (e *Expr) Walk(f func(*Expr)) {
	f(e)
	for _, k := range e.Kids {
		k.Walk(f)
	}
}
