package gen

import (
	"fmt"
	"math/rand"
	"strings"

	openfgav1 "github.com/openfga/api/proto/openfga/v1"
)

// ---- G1d: structurally valid protobuf models with missing optional parts (C08 only) ----

func allUsersets(m *openfgav1.AuthorizationModel) (out []*openfgav1.Userset) {
	var walk func(u *openfgav1.Userset)
	walk = func(u *openfgav1.Userset) {
		if u == nil {
			return
		}
		out = append(out, u)
		switch rw := u.GetUserset().(type) {
		case *openfgav1.Userset_Union:
			for _, c := range rw.Union.GetChild() {
				walk(c)
			}
		case *openfgav1.Userset_Intersection:
			for _, c := range rw.Intersection.GetChild() {
				walk(c)
			}
		case *openfgav1.Userset_Difference:
			walk(rw.Difference.GetBase())
			walk(rw.Difference.GetSubtract())
		}
	}
	for _, td := range m.GetTypeDefinitions() {
		for _, u := range td.GetRelations() {
			walk(u)
		}
	}
	return
}

// Degenerate applies 1..4 random degenerations to a model (in place) and returns their names.
func Degenerate(r *rand.Rand, m *openfgav1.AuthorizationModel) []string {
	var applied []string
	n := 1 + r.Intn(4)
	for i := 0; i < n; i++ {
		name := degenerateOnce(r, m)
		if name != "" {
			applied = append(applied, name)
		}
	}
	return applied
}

func pickTD(r *rand.Rand, m *openfgav1.AuthorizationModel) *openfgav1.TypeDefinition {
	var c []*openfgav1.TypeDefinition
	for _, td := range m.GetTypeDefinitions() {
		if td != nil {
			c = append(c, td)
		}
	}
	if len(c) == 0 {
		return nil
	}
	return c[r.Intn(len(c))]
}

func pickRel(r *rand.Rand, td *openfgav1.TypeDefinition) string {
	var names []string
	for rn := range td.GetRelations() {
		names = append(names, rn)
	}
	if len(names) == 0 {
		return ""
	}
	// map order is random: sort for determinism
	for i := range names {
		for j := i + 1; j < len(names); j++ {
			if names[j] < names[i] {
				names[i], names[j] = names[j], names[i]
			}
		}
	}
	return names[r.Intn(len(names))]
}

const NDegenerations = 37

func degenerateOnce(r *rand.Rand, m *openfgav1.AuthorizationModel) string {
	td := pickTD(r, m)
	us := allUsersets(m)
	var u *openfgav1.Userset
	if len(us) > 0 {
		u = us[r.Intn(len(us))]
	}
	k := r.Intn(NDegenerations)
	switch k {
	case 0:
		if td != nil {
			if rn := pickRel(r, td); rn != "" {
				td.Relations[rn] = nil
				return "nil userset as relation value"
			}
		}
	case 1:
		if u != nil {
			u.Userset = nil
			return "userset with empty oneof"
		}
	case 2:
		if u != nil {
			u.Userset = &openfgav1.Userset_Union{}
			return "union oneof with nil payload"
		}
	case 3:
		if u != nil {
			u.Userset = &openfgav1.Userset_Intersection{Intersection: &openfgav1.Usersets{}}
			return "intersection without children"
		}
	case 4:
		if u != nil {
			u.Userset = &openfgav1.Userset_Union{Union: &openfgav1.Usersets{Child: []*openfgav1.Userset{nil, This(), nil}}}
			return "union with nil children"
		}
	case 5:
		if u != nil {
			u.Userset = &openfgav1.Userset_Difference{}
			return "difference oneof with nil payload"
		}
	case 6:
		if u != nil {
			u.Userset = &openfgav1.Userset_Difference{Difference: &openfgav1.Difference{Base: This()}}
			return "difference without subtract"
		}
	case 7:
		if u != nil {
			u.Userset = &openfgav1.Userset_Difference{Difference: &openfgav1.Difference{Subtract: Computed("a")}}
			return "difference without base"
		}
	case 8:
		if u != nil {
			u.Userset = &openfgav1.Userset_TupleToUserset{}
			return "ttu oneof with nil payload"
		}
	case 9:
		if u != nil {
			u.Userset = &openfgav1.Userset_TupleToUserset{TupleToUserset: &openfgav1.TupleToUserset{ComputedUserset: &openfgav1.ObjectRelation{Relation: "r0"}}}
			return "ttu without tupleset"
		}
	case 10:
		if u != nil {
			u.Userset = &openfgav1.Userset_TupleToUserset{TupleToUserset: &openfgav1.TupleToUserset{Tupleset: &openfgav1.ObjectRelation{Relation: "p"}}}
			return "ttu without computed userset"
		}
	case 11:
		if u != nil {
			u.Userset = &openfgav1.Userset_ComputedUserset{}
			return "computed oneof with nil payload"
		}
	case 12:
		if u != nil {
			u.Userset = &openfgav1.Userset_This{}
			return "this oneof with nil payload"
		}
	case 13:
		if td != nil {
			td.Metadata = nil
			return "nil type metadata"
		}
	case 14:
		if td != nil && td.Metadata != nil {
			td.Metadata.Relations = nil
			return "nil relation metadata map"
		}
	case 15:
		if td != nil && td.Metadata != nil {
			if rn := pickRel(r, td); rn != "" {
				if td.Metadata.Relations == nil {
					td.Metadata.Relations = map[string]*openfgav1.RelationMetadata{}
				}
				td.Metadata.Relations[rn] = nil
				return "nil relation metadata value"
			}
		}
	case 16, 17, 18, 19:
		if td != nil && td.Metadata != nil {
			if rn := pickRel(r, td); rn != "" && td.Metadata.Relations[rn] != nil {
				md := td.Metadata.Relations[rn]
				var ref *openfgav1.RelationReference
				name := ""
				switch k {
				case 16:
					ref, name = nil, "nil restriction element"
				case 17:
					ref, name = &openfgav1.RelationReference{Type: "u0", RelationOrWildcard: &openfgav1.RelationReference_Wildcard{}}, "wildcard oneof with nil payload"
				case 18:
					ref, name = &openfgav1.RelationReference{Type: "u0", RelationOrWildcard: &openfgav1.RelationReference_Relation{}}, "relation oneof with empty relation"
				case 19:
					ref, name = &openfgav1.RelationReference{}, "restriction without type"
				}
				pos := r.Intn(len(md.DirectlyRelatedUserTypes) + 1)
				md.DirectlyRelatedUserTypes = append(md.DirectlyRelatedUserTypes[:pos], append([]*openfgav1.RelationReference{ref}, md.DirectlyRelatedUserTypes[pos:]...)...)
				return name
			}
		}
	case 20:
		if len(m.TypeDefinitions) > 0 {
			m.TypeDefinitions[r.Intn(len(m.TypeDefinitions))] = nil
			return "nil type definition element"
		}
	case 21:
		if m.Conditions == nil {
			m.Conditions = map[string]*openfgav1.Condition{}
		}
		m.Conditions["nilcond"] = nil
		return "nil condition value"
	case 22:
		if m.Conditions == nil {
			m.Conditions = map[string]*openfgav1.Condition{}
		}
		m.Conditions["key"] = &openfgav1.Condition{Name: "other", Expression: "x"}
		return "condition key differs from its name"
	case 23:
		if m.Conditions == nil {
			m.Conditions = map[string]*openfgav1.Condition{}
		}
		m.Conditions["c"] = &openfgav1.Condition{Name: "c", Expression: "x", Parameters: map[string]*openfgav1.ConditionParamTypeRef{"p": nil}}
		return "nil condition parameter"
	case 24:
		if m.Conditions == nil {
			m.Conditions = map[string]*openfgav1.Condition{}
		}
		tn := []openfgav1.ConditionParamTypeRef_TypeName{openfgav1.ConditionParamTypeRef_TYPE_NAME_LIST, openfgav1.ConditionParamTypeRef_TYPE_NAME_MAP}[r.Intn(2)]
		m.Conditions["c"] = &openfgav1.Condition{Name: "c", Expression: "x", Parameters: map[string]*openfgav1.ConditionParamTypeRef{"p": {TypeName: tn}}}
		return "container parameter without element type"
	case 35, 36:
		// containers nested in containers: the innermost one with, without or with too many element types
		if m.Conditions == nil {
			m.Conditions = map[string]*openfgav1.Condition{}
		}
		cont := func() openfgav1.ConditionParamTypeRef_TypeName {
			return []openfgav1.ConditionParamTypeRef_TypeName{openfgav1.ConditionParamTypeRef_TYPE_NAME_LIST, openfgav1.ConditionParamTypeRef_TYPE_NAME_MAP}[r.Intn(2)]
		}
		inner := &openfgav1.ConditionParamTypeRef{TypeName: cont()}
		switch r.Intn(3) {
		case 1:
			inner.GenericTypes = []*openfgav1.ConditionParamTypeRef{{TypeName: openfgav1.ConditionParamTypeRef_TYPE_NAME_STRING}}
		case 2:
			inner.GenericTypes = []*openfgav1.ConditionParamTypeRef{{TypeName: openfgav1.ConditionParamTypeRef_TYPE_NAME_STRING}, {TypeName: openfgav1.ConditionParamTypeRef_TYPE_NAME_INT}}
		}
		for d := r.Intn(3); d >= 0; d-- {
			inner = &openfgav1.ConditionParamTypeRef{TypeName: cont(), GenericTypes: []*openfgav1.ConditionParamTypeRef{inner}}
		}
		if k == 36 {
			inner.GenericTypes = append(inner.GenericTypes, &openfgav1.ConditionParamTypeRef{TypeName: openfgav1.ConditionParamTypeRef_TYPE_NAME_BOOL})
		}
		m.Conditions["c"] = &openfgav1.Condition{Name: "c", Expression: "x", Parameters: map[string]*openfgav1.ConditionParamTypeRef{"p": inner}}
		return "container parameter nested in containers"
	case 25:
		if m.Conditions == nil {
			m.Conditions = map[string]*openfgav1.Condition{}
		}
		m.Conditions["c"] = &openfgav1.Condition{Name: "c", Expression: "x", Parameters: map[string]*openfgav1.ConditionParamTypeRef{"p": {TypeName: openfgav1.ConditionParamTypeRef_TYPE_NAME_LIST, GenericTypes: []*openfgav1.ConditionParamTypeRef{nil}}}}
		return "container parameter with nil element type"
	case 26:
		if m.Conditions == nil {
			m.Conditions = map[string]*openfgav1.Condition{}
		}
		m.Conditions["c"] = &openfgav1.Condition{Name: "c", Expression: "x", Parameters: map[string]*openfgav1.ConditionParamTypeRef{"p": {TypeName: openfgav1.ConditionParamTypeRef_TypeName(99)}}}
		return "unknown parameter type number"
	case 27:
		if td != nil {
			td.Type = ""
			return "empty type name"
		}
	case 28:
		if td != nil && len(td.Relations) > 0 {
			td.Relations[""] = This()
			return "empty relation name"
		}
	case 30:
		if td != nil {
			if td.Metadata == nil {
				td.Metadata = &openfgav1.Metadata{}
			}
			td.Metadata.Module, td.Metadata.SourceInfo = "mod", nil
			for _, md := range td.Metadata.Relations {
				if md != nil {
					md.Module, md.SourceInfo = "ext", nil
				}
			}
			return "module attribution without source info"
		}
	case 31:
		for _, cd := range m.Conditions {
			if cd != nil {
				cd.Metadata = &openfgav1.ConditionMetadata{Module: "mod"}
			}
		}
		if len(m.Conditions) > 0 {
			return "condition with a module but no source info"
		}
	case 32:
		if m.Conditions == nil {
			m.Conditions = map[string]*openfgav1.Condition{}
		}
		m.Conditions["unnamed"] = &openfgav1.Condition{Expression: "x < 1", Parameters: map[string]*openfgav1.ConditionParamTypeRef{"x": {TypeName: openfgav1.ConditionParamTypeRef_TYPE_NAME_INT}}}
		return "condition whose nested name is empty"
	case 33, 34:
		// names that look like the labels and keys the graph packages build internally, or that are no identifiers at
		// all (a protobuf model can carry any string): renamed consistently so that the name is still reached
		if td != nil {
			old := td.GetType()
			other := pickTD(r, m)
			hostile := []string{"R#ghost", "R#" + other.GetType(), "union:x", "intersection:", "exclusion:1", "a#b", "a:b", other.GetType() + ":*", "*", "", " ", "a b",
				"type", "#", ":", "x\ny", "%s%d", other.GetType() + "#" + pickRel(r, other), "R#" + other.GetType() + "#" + pickRel(r, other), strings.Repeat("n", 300)}
			nw := hostile[r.Intn(len(hostile))]
			if k == 33 {
				td.Type = nw
				for _, t2 := range m.GetTypeDefinitions() {
					for _, md := range t2.GetMetadata().GetRelations() {
						for _, ref := range md.GetDirectlyRelatedUserTypes() {
							if ref != nil && ref.GetType() == old {
								ref.Type = nw
							}
						}
					}
				}
				return "type with a hostile name (renamed consistently)"
			}
			if rn := pickRel(r, td); rn != "" {
				for _, t2 := range m.GetTypeDefinitions() {
					if t2 == nil {
						continue
					}
					if u, ok := t2.GetRelations()[rn]; ok {
						delete(t2.Relations, rn)
						t2.Relations[nw] = u
					}
					if md, ok := t2.GetMetadata().GetRelations()[rn]; ok {
						delete(t2.Metadata.Relations, rn)
						t2.Metadata.Relations[nw] = md
					}
					for _, md := range t2.GetMetadata().GetRelations() {
						for _, ref := range md.GetDirectlyRelatedUserTypes() {
							if ref.GetRelation() == rn {
								ref.RelationOrWildcard = &openfgav1.RelationReference_Relation{Relation: nw}
							}
						}
					}
				}
				for _, u := range allUsersets(m) {
					if c := u.GetComputedUserset(); c != nil && c.GetRelation() == rn {
						c.Relation = nw
					}
					if t := u.GetTupleToUserset(); t != nil {
						if t.GetComputedUserset().GetRelation() == rn {
							t.ComputedUserset.Relation = nw
						}
						if t.GetTupleset().GetRelation() == rn {
							t.Tupleset.Relation = nw
						}
					}
				}
				return "relation with a hostile name (renamed consistently)"
			}
		}
	case 29:
		if td != nil {
			// the same type twice
			m.TypeDefinitions = append(m.TypeDefinitions, &openfgav1.TypeDefinition{Type: td.GetType(), Relations: map[string]*openfgav1.Userset{"dup": Computed("dup")}})
			return "type defined twice"
		}
	}
	return ""
}

// DeepModel builds a model whose single relation nests operators n deep (stack-depth probes).
func DeepModel(n int, kind int) *openfgav1.AuthorizationModel {
	u := Computed("a")
	for i := 0; i < n; i++ {
		switch kind % 3 {
		case 0:
			u = Union(u, Computed("a"))
		case 1:
			u = Diff(Computed("a"), u)
		case 2:
			u = Inter(Computed("a"), u)
		}
	}
	return &openfgav1.AuthorizationModel{SchemaVersion: "1.1", TypeDefinitions: []*openfgav1.TypeDefinition{{Type: "user"}, {Type: "t",
		Relations: map[string]*openfgav1.Userset{"r": u, "a": This()},
		Metadata:  &openfgav1.Metadata{Relations: map[string]*openfgav1.RelationMetadata{"a": {DirectlyRelatedUserTypes: []*openfgav1.RelationReference{{Type: "user"}}}}}}}}
}

var _ = fmt.Sprintf
