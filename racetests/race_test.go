// Package racetests holds the workloads that run under the Go race detector (go test -race) for the
// thread-safety clause of C13 and the concurrent-builds clause of C06. The driver (vcheck) starts them with
// GORACE=halt_on_error=0 log_path=..., counts the report blocks in the log and reads the JSON written here.
package racetests

import (
	"encoding/json"
	"errors"
	"fmt"
	"math/rand"
	"os"
	"strconv"
	"strings"
	"sync"
	"sync/atomic"
	"testing"
	"time"

	openfgav1 "github.com/openfga/api/proto/openfga/v1"
	"github.com/openfga/language/pkg/go/graph"
	"github.com/openfga/language/pkg/go/transformer"
	"github.com/openfga/language/pkg/go/utils"
	"github.com/openfga/language/pkg/go/validation"
	"google.golang.org/protobuf/encoding/protojson"
	"google.golang.org/protobuf/proto"

	"verif/internal/gen"
	"verif/internal/ref"
)

type mismatch struct {
	Mix      string   `json:"mix"`
	Detail   string   `json:"detail"`
	Model    string   `json:"model,omitempty"`
	Texts    []string `json:"texts,omitempty"`
	Expected string   `json:"expected"`
	Observed string   `json:"observed"`
}

type result struct {
	Rounds           int            `json:"rounds"`
	Calls            int64          `json:"calls"`
	OverlappingPairs int64          `json:"overlapping_pairs"`
	PerMix           map[string]int `json:"per_mix"`
	Mismatches       []mismatch     `json:"mismatches"`
	DistinctInputs   int            `json:"distinct_inputs"`
	Sample           string         `json:"sample"`
}

func envInt(name string, def int) int {
	if v, err := strconv.Atoi(os.Getenv(name)); err == nil {
		return v
	}
	return def
}

type span struct{ s, e int64 }

// barrierRun starts n goroutines behind a barrier and returns how many pairs of calls overlapped in time.
func barrierRun(n int, f func(w int)) int64 {
	start := make(chan struct{})
	spans := make([]span, n)
	var wg sync.WaitGroup
	t0 := time.Now()
	for w := 0; w < n; w++ {
		wg.Add(1)
		go func(w int) {
			defer wg.Done()
			<-start
			spans[w].s = int64(time.Since(t0))
			f(w)
			spans[w].e = int64(time.Since(t0))
		}(w)
	}
	close(start)
	wg.Wait()
	var pairs int64
	for i := 0; i < n; i++ {
		for j := i + 1; j < n; j++ {
			if spans[i].s < spans[j].e && spans[j].s < spans[i].e {
				pairs++
			}
		}
	}
	return pairs
}

func detKey(m *openfgav1.AuthorizationModel) string {
	if m == nil {
		return "<nil>"
	}
	b, _ := proto.MarshalOptions{Deterministic: true}.Marshal(m)
	return string(b)
}

func parseKey(txt string) string {
	m, err := transformer.TransformDSLToProto(txt)
	if err != nil {
		return "ERR:" + err.Error()
	}
	return detKey(m)
}

func renderKey(m *openfgav1.AuthorizationModel, src bool) string {
	s, err := transformer.TransformJSONProtoToDSL(m, transformer.WithIncludeSourceInformation(src))
	if err != nil {
		return "ERR:" + err.Error()
	}
	return s
}

func buildKey(m *openfgav1.AuthorizationModel) string {
	g, err := graph.NewWeightedAuthorizationModelGraphBuilder().Build(m)
	if err != nil {
		// which sentinel is returned may depend on the traversal order when several rules are broken (DESIGN §7-d)
		if isErr(err, graph.ErrModelCycle) || isErr(err, graph.ErrTupleCycle) || isErr(err, graph.ErrInvalidModel) {
			return "ERR"
		}
		return "ERR:" + err.Error()
	}
	return ref.CanonWeighted(g)
}

func plainKey(m *openfgav1.AuthorizationModel) string {
	g, err := graph.NewAuthorizationModelGraph(m)
	if err != nil {
		return "ERR:" + err.Error()
	}
	return g.GetDOT()
}

func mergeKey(files []transformer.ModuleFile) string {
	m, err := transformer.TransformModuleFilesToModel(files, "1.2")
	if err != nil {
		return "ERR:" + err.Error()
	}
	return detKey(m)
}

func isErr(err, target error) bool {
	for e := err; e != nil; {
		if e == target {
			return true
		}
		u, ok := e.(interface{ Unwrap() error })
		if !ok {
			return false
		}
		e = u.Unwrap()
	}
	return false
}

// modularUnsorted: a modular model whose type list is NOT in module order (the shape that made the printer sort
// its argument in place).
func modularUnsorted(r *rand.Rand) *openfgav1.AuthorizationModel {
	m := gen.Model(r, gen.ModelOpt{MaxObj: 3, MaxTerm: 3})
	mods := []string{"zz", "aa", "mm", ""}
	for _, td := range m.TypeDefinitions {
		if td.Metadata == nil {
			td.Metadata = &openfgav1.Metadata{}
		}
		td.Metadata.Module = mods[r.Intn(len(mods))]
		td.Metadata.SourceInfo = &openfgav1.SourceInfo{File: fmt.Sprintf("f%d.fga", r.Intn(3))}
	}
	// make sure it is unsorted: reverse module order
	for i, j := 0, len(m.TypeDefinitions)-1; i < j; i, j = i+1, j-1 {
		m.TypeDefinitions[i], m.TypeDefinitions[j] = m.TypeDefinitions[j], m.TypeDefinitions[i]
	}
	m.TypeDefinitions[0].Metadata.Module = "zz"
	m.TypeDefinitions[len(m.TypeDefinitions)-1].Metadata.Module = "aa"
	return m
}

func moduleFiles(r *rand.Rand) []transformer.ModuleFile {
	return []transformer.ModuleFile{
		{Name: "b.fga", Contents: "module b\ntype zed\n  relations\n    define r: [user]\ntype user\ntype y\ntype x" + fmt.Sprint(r.Intn(100)) + "\n\ncondition c1(x: int) {\n  x < 1\n}\n"},
		{Name: "a.fga", Contents: "module a\ntype doc\n  relations\n    define r: [user with c1]\nextend type zed\n  relations\n    define q: [user] or r\n"},
		{Name: "c.fga", Contents: "module c\nextend type doc\n  relations\n    define z" + fmt.Sprint(r.Intn(100)) + ": r and (r or r)\nextend type y\n  relations\n    define a: [user:*]\n"},
	}
}

func TestConcurrent(t *testing.T) {
	rounds := envInt("VERIF_RACE_ROUNDS", 10)
	seed := int64(envInt("VERIF_SEED", 1))
	which := os.Getenv("VERIF_RACE_MIX") // "c06" | "c13" | "" (both)
	workers := envInt("VERIF_RACE_WORKERS", 12)
	res := result{Rounds: rounds, PerMix: map[string]int{}}
	var calls int64
	var mu sync.Mutex
	report := func(mm mismatch) {
		mu.Lock()
		if len(res.Mismatches) < 10 {
			res.Mismatches = append(res.Mismatches, mm)
		}
		mu.Unlock()
	}
	inputs := map[string]bool{}
	mj := func(m *openfgav1.AuthorizationModel) string { b, _ := protojson.Marshal(m); return string(b) }
	for round := 0; round < rounds; round++ {
		r := rand.New(rand.NewSource(seed*1000003 + int64(round)))
		if which == "" || which == "c06" {
			// F: concurrent builds of one shared model, compared with the sequential build
			m := gen.Model(r, gen.ModelOpt{Hazards: round%3 == 0, Wildcards: 2})
			want := buildKey(proto.Clone(m).(*openfgav1.AuthorizationModel))
			inputs[mj(m)] = true
			res.OverlappingPairs += barrierRun(16, func(w int) {
				got := buildKey(m)
				atomic.AddInt64(&calls, 1)
				if got != want {
					report(mismatch{Mix: "concurrent-builds", Detail: "a concurrent build differs from the sequential build", Model: mj(m), Expected: want, Observed: got})
				}
			})
			res.PerMix["concurrent-builds"]++
			if res.Sample == "" {
				res.Sample = gen.PPModel(m)
			}
		}
		if which == "" || which == "c06" || which == "c13" {
			// F2: ONE builder value shared by all goroutines, each building its own model (and two of them the same)
			shared := graph.NewWeightedAuthorizationModelGraphBuilder()
			var ms []*openfgav1.AuthorizationModel
			var wants []string
			for i := 0; i < 8; i++ {
				m := gen.Model(r, gen.ModelOpt{Hazards: i%4 == 0})
				ms = append(ms, m)
				wants = append(wants, buildKey(proto.Clone(m).(*openfgav1.AuthorizationModel)))
			}
			res.OverlappingPairs += barrierRun(16, func(w int) {
				g, err := shared.Build(ms[w%8])
				got := "ERR"
				if err == nil {
					got = ref.CanonWeighted(g)
				} else if !(isErr(err, graph.ErrModelCycle) || isErr(err, graph.ErrTupleCycle) || isErr(err, graph.ErrInvalidModel)) {
					got = "ERR:" + err.Error()
				}
				atomic.AddInt64(&calls, 1)
				if got != wants[w%8] {
					report(mismatch{Mix: "shared-builder", Detail: "a build through a builder value shared between goroutines differs from the sequential build", Model: mj(ms[w%8]), Expected: wants[w%8], Observed: got})
				}
			})
			res.PerMix["shared-builder"]++
		}
		if which == "c06" {
			continue
		}
		// A: all render the same unsorted modular model (fresh clone every round)
		{
			base := modularUnsorted(r)
			want0, want1 := renderKey(proto.Clone(base).(*openfgav1.AuthorizationModel), false), renderKey(proto.Clone(base).(*openfgav1.AuthorizationModel), true)
			m := proto.Clone(base).(*openfgav1.AuthorizationModel)
			inputs[mj(base)] = true
			res.OverlappingPairs += barrierRun(workers, func(w int) {
				got := renderKey(m, w%2 == 1)
				atomic.AddInt64(&calls, 1)
				want := want0
				if w%2 == 1 {
					want = want1
				}
				if got != want {
					report(mismatch{Mix: "render-shared-model", Detail: "concurrent rendering differs from the sequential one", Model: mj(base), Expected: want, Observed: got})
				}
			})
			if !proto.Equal(m, base) || typeOrder(m) != typeOrder(base) {
				report(mismatch{Mix: "render-shared-model", Detail: "shared model modified by concurrent rendering", Model: mj(base), Expected: typeOrder(base), Observed: typeOrder(m)})
			}
			res.PerMix["render-shared-model"]++
		}
		// A2: after calls that FAIL half-way (error paths returning pooled objects), goroutines render their own valid
		// models with conditions
		{
			for _, poison := range poisonModels() {
				transformer.TransformJSONProtoToDSL(poison)
			}
			var ms []*openfgav1.AuthorizationModel
			var wants []string
			for i := 0; i < workers; i++ {
				m := &openfgav1.AuthorizationModel{SchemaVersion: "1.1", TypeDefinitions: []*openfgav1.TypeDefinition{{Type: fmt.Sprintf("t%d_%d", round, i)}, {Type: "user"}},
					Conditions: map[string]*openfgav1.Condition{}}
				for k := 0; k < 3; k++ {
					cn := fmt.Sprintf("c%d_%d", i, k)
					m.Conditions[cn] = &openfgav1.Condition{Name: cn, Expression: fmt.Sprintf("x < %d", r.Intn(1000)),
						Parameters: map[string]*openfgav1.ConditionParamTypeRef{"x": {TypeName: openfgav1.ConditionParamTypeRef_TYPE_NAME_INT}}}
				}
				ms = append(ms, m)
				wants = append(wants, renderKey(proto.Clone(m).(*openfgav1.AuthorizationModel), false))
			}
			res.OverlappingPairs += barrierRun(workers, func(w int) {
				got := renderKey(ms[w], false)
				atomic.AddInt64(&calls, 1)
				if got != wants[w] {
					report(mismatch{Mix: "render-after-failed-calls", Detail: "concurrent rendering after failed calls differs from the sequential one", Model: mj(ms[w]), Expected: wants[w], Observed: got})
				}
			})
			res.PerMix["render-after-failed-calls"]++
		}
		// A3: every goroutine renders (and builds the graphs of) its OWN deeply nested model - resources counted per
		// process instead of per call (depth, memory, pooled buffers) add up here and nowhere else
		{
			var ms []*openfgav1.AuthorizationModel
			var wants []string
			for i := 0; i < workers; i++ {
				m := gen.DeepModel(40+r.Intn(50), i)
				ms = append(ms, m)
				wants = append(wants, renderKey(proto.Clone(m).(*openfgav1.AuthorizationModel), false)+"|"+buildKey(proto.Clone(m).(*openfgav1.AuthorizationModel)))
			}
			res.OverlappingPairs += barrierRun(workers, func(w int) {
				got := renderKey(ms[w], false) + "|" + buildKey(ms[w])
				atomic.AddInt64(&calls, 1)
				if got != wants[w] {
					report(mismatch{Mix: "render-and-build-deep-models", Detail: "concurrent rendering / building of distinct deep models differs from the sequential one", Model: mj(ms[w]), Expected: wants[w], Observed: got})
				}
			})
			res.PerMix["render-and-build-deep-models"]++
		}
		// B: render + both graph builders + utils on the same model
		{
			base := modularUnsorted(r)
			wantR, wantW, wantP := renderKey(proto.Clone(base).(*openfgav1.AuthorizationModel), false), buildKey(proto.Clone(base).(*openfgav1.AuthorizationModel)), plainKey(proto.Clone(base).(*openfgav1.AuthorizationModel))
			m := proto.Clone(base).(*openfgav1.AuthorizationModel)
			inputs[mj(base)] = true
			res.OverlappingPairs += barrierRun(workers, func(w int) {
				var got, want, what string
				switch w % 4 {
				case 0:
					got, want, what = renderKey(m, false), wantR, "render"
				case 1:
					got, want, what = buildKey(m), wantW, "weighted graph"
				case 2:
					got, want, what = plainKey(m), wantP, "plain graph"
				case 3:
					for _, td := range m.GetTypeDefinitions() {
						for rn, us := range td.GetRelations() {
							utils.GetModuleForObjectTypeRelation(td, rn)
							utils.IsRelationAssignable(us)
						}
					}
				}
				atomic.AddInt64(&calls, 1)
				if got != want {
					report(mismatch{Mix: "mixed-on-shared-model", Detail: what + " differs from the sequential result", Model: mj(base), Expected: want, Observed: got})
				}
			})
			if !proto.Equal(m, base) || typeOrder(m) != typeOrder(base) {
				report(mismatch{Mix: "mixed-on-shared-model", Detail: "shared model modified", Model: mj(base), Expected: typeOrder(base), Observed: typeOrder(m)})
			}
			res.PerMix["mixed-on-shared-model"]++
		}
		// C / D: parse distinct texts, parse the same text
		{
			var texts, wants []string
			for i := 0; i < workers; i++ {
				g := &gen.DSLGen{R: r}
				d := g.Doc(i%4 == 0)
				txt := d.Render(&gen.Layout{R: r, Wild: i%2 == 0, Comments: true})
				if i%5 == 4 {
					txt = gen.Mutate(r, txt)
				}
				if i%2 == 1 {
					// a document the LISTENER rejects (relation defined twice): its error travels through the parser's
					// error listeners during the tree walk
					lines := strings.Split(txt, "\n")
					for k, ln := range lines {
						if strings.Contains(ln, "define ") {
							lines = append(lines[:k+1], append([]string{ln}, lines[k+1:]...)...)
							break
						}
					}
					txt = strings.Join(lines, "\n")
				}
				texts = append(texts, txt)
				inputs[txt] = true
			}
			for _, txt := range texts {
				wants = append(wants, parseKey(txt))
			}
			res.OverlappingPairs += barrierRun(workers, func(w int) {
				got := parseKey(texts[w])
				atomic.AddInt64(&calls, 1)
				if got != wants[w] {
					report(mismatch{Mix: "parse-distinct-texts", Detail: "concurrent parse differs from the sequential one", Texts: []string{texts[w]}, Expected: wants[w], Observed: got})
				}
			})
			res.PerMix["parse-distinct-texts"]++
			res.OverlappingPairs += barrierRun(workers, func(w int) {
				got := parseKey(texts[0])
				atomic.AddInt64(&calls, 1)
				if got != wants[0] {
					report(mismatch{Mix: "parse-same-text", Detail: "concurrent parse differs from the sequential one", Texts: []string{texts[0]}, Expected: wants[0], Observed: got})
				}
			})
			res.PerMix["parse-same-text"]++
		}
		// E: merge the same file slice
		{
			files := moduleFiles(r)
			want := mergeKey(append([]transformer.ModuleFile{}, files...))
			res.OverlappingPairs += barrierRun(workers, func(w int) {
				got := mergeKey(files)
				atomic.AddInt64(&calls, 1)
				if got != want {
					report(mismatch{Mix: "merge-shared-files", Detail: "concurrent merge differs from the sequential one", Texts: []string{files[0].Contents, files[1].Contents, files[2].Contents}, Expected: want, Observed: got})
				}
			})
			res.PerMix["merge-shared-files"]++
		}
		// E2: every goroutine merges its OWN file set containing a file that is no module: the error must name that file
		{
			res.OverlappingPairs += barrierRun(workers, func(w int) {
				name := fmt.Sprintf("nomodule-%d-%d.fga", round, w)
				files := []transformer.ModuleFile{
					{Name: fmt.Sprintf("a-%d.fga", w), Contents: "module a\ntype user\n"},
					{Name: name, Contents: "model\n  schema 1.1\ntype doc\n"},
				}
				_, err := transformer.TransformModuleFilesToModel(files, "1.2")
				atomic.AddInt64(&calls, 1)
				got := "<no error>"
				var me *transformer.ModuleValidationMultipleError
				if errors.As(err, &me) {
					got = ""
					for _, e := range me.Errors {
						var se *transformer.ModuleTransformationSingleError
						if errors.As(e, &se) {
							got += se.Msg + "|" + se.File + ";"
						}
					}
				}
				if want := "file is not a module|" + name + ";"; got != want {
					report(mismatch{Mix: "merge-distinct-non-module-files", Detail: "the error of a concurrent merge names another call's file", Texts: []string{name}, Expected: want, Observed: got})
				}
			})
			res.PerMix["merge-distinct-non-module-files"]++
		}
		// E3: one shared list of many files, several of them broken in different ways (syntax errors in more than one
		// file, a file that is no module, a type defined twice): whatever a single call does internally per file - and
		// per failing file - happens here several times at once
		{
			var files []transformer.ModuleFile
			n := 8 + r.Intn(5)
			for k := 0; k < n; k++ {
				body := fmt.Sprintf("module m%d\ntype t%d_%d\n  relations\n    define r: [t%d_%d]\n", k%3, k, r.Intn(50), k, r.Intn(50))
				switch {
				case k%4 == 1:
					body += "type broken\n  relations\n    define x: [" // syntax error
				case k%5 == 2:
					body = "module m\ntype $bad\n" // lexer error
				case k == 7:
					body = "model\n  schema 1.1\ntype nomod\n"
				case k == 6:
					body += "type dup\n"
				case k == 3:
					body += "type dup\n"
				}
				files = append(files, transformer.ModuleFile{Name: fmt.Sprintf("many-%d.fga", k), Contents: body})
			}
			want := mergeKey(append([]transformer.ModuleFile{}, files...))
			res.OverlappingPairs += barrierRun(workers, func(w int) {
				got := mergeKey(files)
				atomic.AddInt64(&calls, 1)
				if got != want {
					report(mismatch{Mix: "merge-many-files-several-broken", Detail: "concurrent merge differs from the sequential one", Texts: []string{files[1].Contents}, Expected: want, Observed: got})
				}
			})
			res.PerMix["merge-many-files-several-broken"]++
		}
		// G: validators and fga.mod
		{
			strs := []string{"document:1", "group:eng#member", "user:*", "a b", "x:y#z w", "t:" + fmt.Sprint(r.Intn(1000))}
			mod := "schema: '1.2'\ncontents:\n  - a.fga\n  - b%2Fc.fga\n  - ../x.fga\n"
			_, wantErr := transformer.TransformModFile(mod)
			res.OverlappingPairs += barrierRun(workers, func(w int) {
				for _, s := range strs {
					if validation.ValidateUser(s) != (validation.ValidateUserSet(s) || validation.ValidateObject(s) || validation.ValidateUserWildcard(s)) {
						report(mismatch{Mix: "validators", Detail: "inconsistent answer under concurrency", Texts: []string{s}})
					}
				}
				_, err := transformer.TransformModFile(mod)
				atomic.AddInt64(&calls, 1)
				if fmt.Sprint(err) != fmt.Sprint(wantErr) {
					report(mismatch{Mix: "modfile", Detail: "concurrent result differs", Texts: []string{mod}, Expected: fmt.Sprint(wantErr), Observed: fmt.Sprint(err)})
				}
			})
			res.PerMix["validators-and-modfile"]++
		}
	}
	res.Calls = calls
	res.DistinctInputs = len(inputs)
	if out := os.Getenv("VERIF_RACE_OUT"); out != "" {
		b, _ := json.MarshalIndent(&res, "", " ")
		if err := os.WriteFile(out, b, 0o644); err != nil {
			t.Fatal(err)
		}
	}
	t.Logf("rounds=%d calls=%d overlapping pairs=%d mismatches=%d", rounds, calls, res.OverlappingPairs, len(res.Mismatches))
}

// poisonModels: models on which the printer fails late (after having rendered something).
func poisonModels() []*openfgav1.AuthorizationModel {
	intP := map[string]*openfgav1.ConditionParamTypeRef{"x": {TypeName: openfgav1.ConditionParamTypeRef_TYPE_NAME_INT}}
	return []*openfgav1.AuthorizationModel{
		{SchemaVersion: "1.1", TypeDefinitions: []*openfgav1.TypeDefinition{{Type: "leftover_type"}}, Conditions: map[string]*openfgav1.Condition{
			"aaa_leftover": {Name: "aaa_leftover", Expression: "x < 1", Parameters: intP},
			"zzz_bad":      {Name: "other_name", Expression: "x < 1", Parameters: intP}}},
		{SchemaVersion: "1.1", TypeDefinitions: []*openfgav1.TypeDefinition{{Type: "aaa_leftover_type", Relations: map[string]*openfgav1.Userset{"ok": gen.Computed("x")}},
			{Type: "zzz", Relations: map[string]*openfgav1.Userset{"bad": gen.Union(gen.This(), gen.This())},
				Metadata: &openfgav1.Metadata{Relations: map[string]*openfgav1.RelationMetadata{"bad": {DirectlyRelatedUserTypes: []*openfgav1.RelationReference{{Type: "user"}}}}}}}},
	}
}

func typeOrder(m *openfgav1.AuthorizationModel) string {
	s := ""
	for _, td := range m.GetTypeDefinitions() {
		s += td.GetType() + ","
	}
	return s
}

// TestColdStart: the FIRST calls a fresh process makes to one family of entry points are made concurrently (nothing
// of the repository has run before, so lazily built tables and caches are still empty); the sequential results are
// computed afterwards and compared. One family per process (VERIF_RACE_COLD).
func TestColdStart(t *testing.T) {
	family := os.Getenv("VERIF_RACE_COLD")
	if family == "" {
		t.Skip("VERIF_RACE_COLD not set")
	}
	seed := int64(envInt("VERIF_SEED", 1))
	workers := envInt("VERIF_RACE_WORKERS", 16)
	r := rand.New(rand.NewSource(seed*7368787 + int64(len(family))))
	res := result{Rounds: 1, PerMix: map[string]int{"cold:" + family: 1}}
	mj := func(m *openfgav1.AuthorizationModel) string { b, _ := protojson.Marshal(m); return string(b) }
	var f func(i int) string
	var show func(i int) ([]string, string)
	switch family {
	case "parse", "parse-modular", "parse-json":
		var texts []string
		paramTypes := []string{"int", "string", "bool", "uint", "double", "duration", "timestamp", "ipaddress", "any", "list<string>", "map<int>", "list<any>"}
		for i := 0; i < workers; i++ {
			g := &gen.DSLGen{R: r}
			txt := g.Doc(family == "parse-modular").Render(&gen.Layout{R: r, Wild: i%2 == 0, Comments: i%3 == 0})
			if family == "parse-json" {
				// documents of very different sizes, the larger ones well beyond any small default buffer
				for k := 0; k < (i%5)*(8+r.Intn(12)); k++ {
					txt += fmt.Sprintf("\ntype bulk_%d_%d\n  relations\n    define r%d: [bulk_%d_%d] or r%d\n", i, k, k, i, k, k)
				}
			}
			if family == "parse" {
				// every document carries a condition with parameters of several types
				txt += fmt.Sprintf("\ncondition cold_%d(p0: %s, p1: %s, p2: %s) {\n  p0 == p0\n}\n", i, paramTypes[i%len(paramTypes)], paramTypes[(i+5)%len(paramTypes)], paramTypes[r.Intn(len(paramTypes))])
			}
			texts = append(texts, txt)
		}
		f = func(i int) string {
			if family == "parse-modular" {
				m, _, err := transformer.TransformModularDSLToProto(texts[i])
				if err != nil {
					return "ERR:" + err.Error()
				}
				return detKey(m)
			}
			if family == "parse-json" {
				js, err := transformer.TransformDSLToJSON(texts[i])
				if err != nil {
					return "ERR:" + err.Error()
				}
				m, err := transformer.LoadJSONStringToProto(js)
				if err != nil {
					return "ERR-LOAD:" + err.Error()
				}
				return detKey(m)
			}
			return parseKey(texts[i])
		}
		show = func(i int) ([]string, string) { return []string{texts[i]}, "" }
	case "render", "render-json", "build", "plain":
		var ms []*openfgav1.AuthorizationModel
		for i := 0; i < workers; i++ {
			var m *openfgav1.AuthorizationModel
			if family == "render" && i%2 == 0 {
				m = modularUnsorted(r)
			} else {
				m = gen.Model(r, gen.ModelOpt{Conditions: true, Wildcards: 2, Hazards: family != "render" && family != "render-json" && i%4 == 0})
			}
			ms = append(ms, m)
		}
		f = func(i int) string {
			switch family {
			case "render":
				return renderKey(ms[i], i%3 == 0)
			case "render-json":
				s, err := transformer.TransformJSONStringToDSL(mj(ms[i]))
				if err != nil {
					return "ERR:" + err.Error()
				}
				return *s
			case "build":
				return buildKey(ms[i])
			}
			return plainKey(ms[i])
		}
		show = func(i int) ([]string, string) { return nil, mj(ms[i]) }
	case "merge":
		var sets [][]transformer.ModuleFile
		for i := 0; i < workers; i++ {
			sets = append(sets, moduleFiles(r))
		}
		f = func(i int) string { return mergeKey(sets[i]) }
		show = func(i int) ([]string, string) {
			return []string{sets[i][0].Contents, sets[i][1].Contents, sets[i][2].Contents}, ""
		}
	case "modfile-validators":
		mods := []string{"schema: '1.2'\ncontents:\n  - a.fga\n  - b%2Fc.fga\n", "schema: '1.2'\ncontents:\n  - ../x.fga\n", "schema: '1.1'\ncontents: [a.fga]\n", "contents:\n  - 1\n"}
		strs := []string{"document:1", "group:eng#member", "user:*", "a b", "x:y#z w", "t:1", "", "a:b:c"}
		f = func(i int) string {
			mf, err := transformer.TransformModFile(mods[i%len(mods)])
			out := fmt.Sprint(err)
			if err == nil {
				out = fmt.Sprintf("%+v", *mf)
			}
			for _, s := range strs {
				out += fmt.Sprint(validation.ValidateUser(s), validation.ValidateObject(s), validation.ValidateRelation(s), validation.ValidateType(s), validation.ValidateUserSet(s), validation.ValidateUserWildcard(s), validation.ValidateRelationshipCondition(s))
			}
			return out
		}
		show = func(i int) ([]string, string) { return []string{mods[i%len(mods)]}, "" }
	default:
		t.Fatalf("unknown cold family %q", family)
	}
	got := make([]string, workers)
	res.OverlappingPairs = barrierRun(workers, func(w int) { got[w] = f(w) })
	res.Calls = int64(workers)
	res.DistinctInputs = workers
	for i := 0; i < workers; i++ {
		if want := f(i); want != got[i] {
			texts, model := show(i)
			res.Mismatches = append(res.Mismatches, mismatch{Mix: "cold:" + family, Detail: "the first, concurrent call of a fresh process differs from the same call made afterwards", Texts: texts, Model: model, Expected: want, Observed: got[i]})
		}
	}
	if out := os.Getenv("VERIF_RACE_OUT"); out != "" {
		b, _ := json.MarshalIndent(&res, "", " ")
		if err := os.WriteFile(out, b, 0o644); err != nil {
			t.Fatal(err)
		}
	}
}
