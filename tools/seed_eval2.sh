#!/bin/sh
# tools/seed_eval2.sh <out-dir> <i> [check ids...]   like seed_eval.sh for an explicit directory; when no check id is
# given the property is read from the first line of meta<i>.txt ("PROPERTY: Cxx")
D=$1; I=$2; shift 2
DEMO=$(ls $D/demo${I}_test.go 2>/dev/null)
PKG=$(grep -m1 -oE "pkg/go/[a-z]+" $DEMO | head -1)
RUN=$(grep -o 'func Test[A-Za-z0-9_]*' $DEMO | sed 's/func //' | tr '\n' '|' | sed 's/|$//')
[ $# -eq 0 ] && set -- $(head -1 $D/meta$I.txt | grep -oE 'C[0-9][0-9]')
echo "##### $D mutant $I (pkg $PKG, tests $RUN, checks $*)"
/verif/tools/verify_seed.sh $D/patch$I.diff $DEMO $PKG "$RUN" 2>&1 | grep -E "^---|^ok|^FAIL|^--- FAIL|PATCH|panic:" | head -20
for C in "$@"; do
  echo "## check $C:"; /verif/tools/mutant.sh $D/patch$I.diff $C 2>&1 | grep -E "VIOLATION|class:|exit=|INCONC|KNOWN" | cut -c1-220 | head -8
done
