#!/bin/sh
# tools/verify_seed.sh <patch.diff> <demo_test.go> <package dir relative to the repo, e.g. pkg/go/transformer> [run-regexp]
# Confirms in a scratch worktree: (1) demo passes on the clean tree, (2) with the patch the repository's suite passes,
# (3) with the patch the demo fails. The worktree is removed afterwards.
set -u
PATCH=$(realpath "$1"); DEMO=$(realpath "$2"); PKG=$3; RUN=${4:-.}
export GOFLAGS=-mod=mod GOPROXY=off GOSUMDB=off GOTOOLCHAIN=local
RACE=""
if head -30 "$DEMO" | grep -q -- "-race\|^// RACE"; then RACE="-race"; echo "--- (demo run with -race)"; fi
WT=$(mktemp -d /tmp/vs.XXXXXX)
cleanup() { git -C /repo worktree remove --force "$WT" 2>/dev/null; rm -rf "$WT"; git -C /repo worktree prune; }
trap cleanup EXIT INT TERM
git -C /repo worktree add -q --detach "$WT" HEAD || exit 2
DN=$(basename "$DEMO")
case "$DN" in *_test.go) ;; *) DN="${DN%.go}_test.go";; esac
cp "$DEMO" "$WT/$PKG/zz_$DN"
echo "--- demo on the clean tree (must pass)"
(cd "$WT/$PKG" && go test $RACE -vet=off -count=1 -run "$RUN" . 2>&1 | tail -5)
git -C "$WT" apply "$PATCH" || { echo "PATCH DOES NOT APPLY"; exit 2; }
echo "--- demo with the patch (must fail)"
(cd "$WT/$PKG" && go test $RACE -vet=off -count=1 -run "$RUN" . 2>&1 | grep -v "^      \|^  \|^$\|Goroutine\|Previous\|====" | tail -15)
rm "$WT/$PKG/zz_$DN"
echo "--- repository suite with the patch (must pass)"
(cd "$WT/pkg/go" && go test -vet=off -count=1 ./... 2>&1 | grep -v "no test files")
