#!/usr/bin/env python3
"""like store_seed.py but reads /tmp/seed10 and stores as <Cxx>-r10-<i>"""
import sys, os, shutil, glob, json
pid, i, caught, needs = sys.argv[1:5]
note = sys.argv[5] if len(sys.argv) > 5 else ""
src = f"/tmp/seed10/out-{pid}"
dst = f"/verif/seeded/{pid}-r10-{i}"
os.makedirs(dst, exist_ok=True)
shutil.copy(f"{src}/patch{i}.diff", f"{dst}/patch.diff")
for f in glob.glob(f"{src}/demo{i}*"):
    b = os.path.basename(f)
    if os.path.isdir(f):
        shutil.copytree(f, f"{dst}/{b}", dirs_exist_ok=True)
    else:
        shutil.copy(f, f"{dst}/{b}.txt" if b.endswith(".go") else f"{dst}/{b}")
author = open(f"{src}/meta{i}.txt").read() if os.path.exists(f"{src}/meta{i}.txt") else ""
meta = {"property": pid, "round": 10,
 "origin": "independent sub-agent given only the property text, one-line descriptions of the changes of rounds 1-9 (to avoid repeats) and a scratch worktree",
 "needs_to_manifest": needs, "author_notes": author,
 "confirmed": "tools/verify_seed.sh: demo passes on the clean tree, fails with the patch; repository suite passes with the patch",
 "checks_run": f"tools/mutant.sh seeded/{pid}-r10-{i}/patch.diff <ID> quick",
 "caught_by": [] if caught == "none" else caught.split(","), "note": note}
json.dump(meta, open(f"{dst}/meta.json", "w"), indent=1)
print("stored", dst)
