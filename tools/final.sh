#!/bin/sh
# tools/final.sh: the closing sweep, run in /verif itself against /repo: every quick check, then every thorough check
# (the evidence files that stay are those of the thorough tier). Logs under /tmp/logs/final-*.
cd "$(dirname "$0")/.." || exit 2
mkdir -p /tmp/logs
./check setup > /tmp/logs/final-setup.log 2>&1
for tier in quick thorough; do
  for p in C01 C02 C03 C04 C05 C06 C07 C08 C09 C10 C11 C12 C13 C14 C15 C16 C17 C18 C19; do
    s=$(date +%s)
    ./check $p $tier > /tmp/logs/final-$tier-$p.log 2>&1
    echo "$tier $p exit=$? $(( $(date +%s)-s ))s viol=$(grep -c '^VIOLATION' /tmp/logs/final-$tier-$p.log) known=$(grep -c '^KNOWN-FINDING' /tmp/logs/final-$tier-$p.log) $(grep -E 'INCONCL|HARNESS' /tmp/logs/final-$tier-$p.log | head -1 | cut -c1-100)"
  done
done
