#!/usr/bin/env python3
"""Regenerates /verif/MANIFEST.json from the table below (kept next to the code so it stays current)."""
import json, os, subprocess, sys

ROOT = os.path.dirname(os.path.dirname(os.path.abspath(__file__)))

CHECKS = {
 "C08": dict(cat="exploration", tech="panic/fatal-error monitor over child processes, logical step counter (Go coverage counters) on scaled families, error-reporting consistency monitor",
   text="Every entry point on 10^5-10^6 hostile byte inputs, cooperating module file sets, well-formed manifests with very short hostile entries and degenerate protobuf models (37 degenerations incl. label-like names and nested containers) in child processes; the exported line-lookup helpers on the lines and words of every input (panics recovered, fatal errors attributed through a logged index); logical work of single calls measured as executed basic blocks on ~100 (quick) / ~700 (thorough) scaled families and random mutants against a quadratic budget, a sustained growth-exponent bound and two hang criteria; parser error listener vs. returned error on every DSL input.",
   note="Work bound holds for the families and sizes measured only; 'never hangs' is decided as 'no call exceeded 50x its quadratic step budget'; K1, K5 recognised by family.", ref="5/C08"),
 "C13": dict(cat="exploration", tech="input-snapshot monitor, Go race detector on barrier-started mixed workloads with sequential baseline, cold-vs-warm subprocess histories, cold-start race processes",
   text="Deep snapshots around every model/file-slice entry point (protobuf equality, slice order, element identity and the Go object graph: pointer addresses, nil-ness, slice headers, scalars of all exported fields); object-reuse sequences (one builder value, one model edited in place, earlier errors re-inspected, failing calls in between) compared with fresh objects; go test -race over rounds of 12-16 goroutines on shared inputs (11 mixes incl. shared builder, non-module files, many files of which several are broken, renders after failed calls); a workload process that dies in repository code is a violation with result comparison and overlap counting; one fresh -race process per entry-point family whose first calls are concurrent (lazy initialisation); per-probe result hashes equal across cold, warmed, reversed, look-alike and history-prefixed processes.",
   note="The race detector only sees interleavings that happened (overlapping pairs are reported in evidence); histories are sampled.", ref="5/C13"),
 "C15": dict(cat="exploration", tech="path-safety predicate + must-accept/must-reject classes over exhaustive and styled manifests with writer-recorded positions",
   text="Every string over the 15-letter alphabet up to length 5 (quick) / 6 (thorough), with and without suffix, plus styled multi-entry manifests (quoting styles, anchors, tags, CRLF, blank and comment lines before and between entries) and manifests whose contents / schema / entry is an alias or arrives through a merge key; safety of every returned path, error counts, verbatim/order, and positions are checked.",
   note="Trusted: own percent decoder and YAML writer; entries with a '../' substring but no '..' segment may be answered either way (DESIGN 5/C15).", ref="5/C15"),
 "C17": dict(cat="exploration", tech="reference-structure monitor (plain mode, edges flipped), reversal / DOT / path-duality monitors, cross-process DOT comparison",
   text="Plain graph compared with the reference structure; Reversed() must flip lines and direction only; DOT stable across double reversal, rebuilds and fresh processes; label lookup and path queries against reference reachability for all label pairs; cycle flags through a hook, in both directions (a reported compile-time cycle needs a cycle of computed usersets only) and equal on the reversed graph.",
   note="Operator nodes are matched through gonum node ids (creation order); cycle queries only on models with <= 12 nodes on cycles.", ref="5/C17"),
 "C18": dict(cat="exploration", tech="decomposition-predicate monitor over exhaustive class-representative strings, boundary lengths and random Unicode; run-time constants vs. JS/Java source strings",
   text="All strings up to length 3 over 16 representatives plus length 4 over 9 classes (quick) / length 5 (thorough), boundary lengths around every limit with 1- to 4-byte characters, long mixed-width strings, every code point below U+0180 in every slot of type / id / relation, random Unicode, through all 9 validators and the predicate (soundness and completeness); the single-field validators compared with the shared rule strings evaluated directly; rule strings compared with the JS and Java sources.",
   note="'identical to JS and Java' is decided on the rule strings as artefacts; JS/Java are not executed (cannot be built offline).", ref="5/C18"),
 "C19": dict(cat="translation_validation", tech="artefact conformance (ATN arrays, vocabularies, listener method set) + Earley recogniser on the .g4 vs. the real generated parser on generated and grammar-derived texts; parse-tree conformance monitor; token-by-token monitor of the real generated lexer against an executable reading of OpenFGALexer.g4 (longest match, first rule, modes)",
   text="Serialized ATNs of Go/JS/Java/.interp decoded and compared and deserialized; sequences of state and prediction-decision numbers in the three generated parser sources compared; name tables compared with each other, the live recogniser and both .g4 files; every literal of the literal-only lexer rules lexed by the real lexer; for 10^4-10^5 texts incl. one shortest sentence per grammar production: grammar accepts <=> generated parser accepts, and every rule node of the tree the generated Go parser built is a derivation step of the .g4 (Earley on the tree grammar); listener dispatch of every generated rule context and the rule-element labels compared across Go / TS / Java and with the grammar; every token (type, extent, channel) and every recognition error of the real generated lexer on those texts, on all strings up to length 2 over the grammar's boundary alphabet in both modes and on 10^4-10^5 random strings equals what OpenFGALexer.g4 on disk prescribes (10^6-10^7 tokens).",
   note="Trusted: .g4 readers, Earley recogniser and the executable lexer semantics (internal/g4); non-greedy lexer loops are not modelled (inputs reaching one are skipped and counted).", ref="5/C19"),
 "C01": dict(cat="exploration", tech="round-trip monitor d->M1->D1->M2->D2->M3->D3 on both API paths over generated, corpus and mutated DSL",
   text="Every accepted full-model text among 10^4-10^6 generated layouts, corpus files and accepted token-level mutants is pushed through render/parse three times on the in-memory and the JSON-string path; equality and byte stability are asserted on each.",
   note="Trusted: proto.Equal; reading of 'modulo surrounding/trailing whitespace' in DESIGN 7-a.", ref="5/C01"),
 "C02": dict(cat="exploration", tech="reference-predicate monitor (expressibility + normal form) over random and exhaustively enumerated rewrite trees",
   text="Success of JSON->DSL compared with an independent expressibility predicate, the error text, and re-parse (also of the rendering with source information) compared with the normal form, on random whole models (operators up to 20 operands) and on every rewrite tree up to 6 (quick) / 7 (thorough) nodes.",
   note="Trusted: predicate and normal form in cmd/vcheck/c02.go (written from the statement); domain limited to texts the lexer can carry (DESIGN 7).", ref="5/C02"),
 "C03": dict(cat="exploration", tech="independent renderer + model-as-written oracle; random and exhaustive (odometer) layout enumeration",
   text="From one AST the harness derives the model that was written and grammar-permitted renderings; the parser's result is compared on 10^4-10^5 random layouts and on the complete reduced layout space of tiny ASTs.",
   note="Trusted: renderer internal/gen/dslrender.go (cross-checked against the .g4 by the Earley recogniser in C19).", ref="5/C03"),
 "C07": dict(cat="exploration", tech="merge oracle (conflict predicate + expected attributed union from the ASTs) over generated module file sets with injected conflicts",
   text="Success <=> oracle says conflict-free; on success proto.Equal with the expected attributed union and GetModuleForObjectTypeRelation; on conflict nil model, demanded errors naming an acceptable file.",
   note="Trusted: oracle in cmd/vcheck/merge.go; conflicts involving broken files are not individually demanded (DESIGN 7-j).", ref="5/C07"),
 "C09": dict(cat="fault_enumeration", tech="injection monitor: catalogue of structural violations x sites x layouts, plus token-stream converse on accepted mutants",
   text="12 kinds of single structural violations injected at random sites (quick) and at every site (share of ASTs) of generated valid documents under random layouts; each must be rejected with nil model by all three DSL entry points.",
   note="Trusted: injection engine and the token-stream declaration counter (uses the real lexer).", ref="5/C09"),
 "C12": dict(cat="exploration", tech="history/metamorphic monitor: repeat-equality and all-permutation equality of merge results",
   text="Each generated file set is merged 12-40 times (map orders) and under every permutation of <=4 files; results and ordered error tuples compared.",
   note="Map iteration orders are sampled, not enumerated.", ref="5/C12"),
 "C14": dict(cat="exploration", tech="metamorphic monitor (repeats, JSON re-encodings, type shuffles) + documented-order predicate + comment-strip equality",
   text="Output bytes (and, for models that cannot be rendered, the error) compared across repeats, overlapping calls on one model, shuffled JSON encodings and type orders; order of types/relations/conditions/parameters checked against the documented rule; source-info variant stripped of comments must equal the plain output and parse to the same model.",
   note="Trusted: order predicate written from the documentation; K4 (line break in a file name) recognised by its signature.", ref="5/C14"),
 "C16": dict(cat="exploration", tech="position monitors: bounds on every reported position, exact renderer marks for listener errors, declaration-site sets for merge conflicts (bug-compatible oracle for K2)",
   text="Bounds of every position in every error for 10^4-10^5 rejected inputs; exact position for 5 injection kinds under random layouts; merge-conflict file+line against the set of declaration sites (also the same clash in two files), column range on the declared name, deviations equal to the naive lookup counted as known finding K2.",
   note="Trusted: renderer marks; K2 signature = reported line equals first-prefix-match lookup.", ref="5/C16"),
 "C04": dict(cat="exploration", tech="reference-model monitor (fixpoint reach sets + longest walk) over real Build, repeated and under hook-enumerated start orders",
   text="Every node and edge weight map of every accepted build (also after a second AssignWeights) is compared with an independent reference model on 10^4-10^5 generated models x (repeated builds + enumerated depth-first start orders); weight keys are compared with the reach sets even when the builder wrongly accepts; held on what was observed, not a proof.",
   note="Trusted: reference model internal/ref/wgraph.go (~400 lines), generator constraints of DESIGN 7-b; hook VerifAssignWeightsInOrder repeats ~25 lines of AssignWeights (fidelity guarded, DESIGN 4).", ref="5/C04"),
 "C05": dict(cat="exploration", tech="verdict monitor vs. well-foundedness predicate under enumerated depth-first start orders (hook) and sampled map orders",
   text="Accept/reject verdict and error class of real Build and of every enumerated start order compared with the reference predicate on generated models with planted cycle hazards; exhaustive over start orders for models with <= 5 (quick) / 6 (thorough) non-terminal nodes.",
   note="Trusted: reference predicate in internal/ref/wgraph.go; start orders beyond the exhaustive bound and map orders inside the traversal are sampled.", ref="5/C05"),
 "C06": dict(cat="exploration", tech="metamorphic/schedule monitor: equality of outcome across start orders, rebuilds, type and operand permutations; Go race detector on concurrent builds",
   text="Outcome equality across enumerated start orders, repeated builds, permuted type definitions and commutative operands, plus 16 concurrent builds of one shared model under go test -race compared with the sequential result.",
   note="Race detector sees only interleavings that happened; canonical form names operators by position.", ref="5/C06"),
 "C10": dict(cat="exploration", tech="structural reference-model monitor (simultaneous walk) + input-snapshot monitor around Build",
   text="Real graph walked simultaneously with the reference structure (nodes, kinds, labels, edge order and kinds, tupleset labels, ordered condition sets, identity of edge endpoints with the nodes held under their labels) on generated models; model snapshotted before and compared after every Build.",
   note="Trusted: reference structure builder; operand de-duplication rules follow the property's anchors.", ref="5/C10"),
 "C11": dict(cat="exploration", tech="reference-model monitor: wildcard lists vs. plain reachability of T:* under enumerated start orders",
   text="Wildcard lists of every node and edge of every accepted build compared as sets (duplicates flagged) with reachability in the reference graph, under repeated builds and enumerated start orders.",
   note="Trusted: reference graph; order inside a wildcard list is not part of the property.", ref="5/C11"),
}

REASON_PENDING = "check under construction (see DESIGN.md section 5); not claimed until its machinery is committed"

def main():
    props = [json.loads(l)["id"] for l in open(os.path.join(ROOT, "properties.jsonl"))]
    try:
        hook_commits = subprocess.check_output(["git", "-C", "/repo", "log", "--format=%H", "--grep=^verif hooks", "HEAD"], text=True).split()
    except Exception:
        hook_commits = []
    m = {
        "version": 1,
        "setup_cmd": "./check setup",
        "hooks": {
            "guard": "verif",
            "enable": "go build -tags verif (Go build tag; the harness module replaces github.com/openfga/language/pkg/go by /repo/pkg/go, so every build compiles /repo's working tree)",
            "baseline_off_cmd": "cd /repo/pkg/go && GOFLAGS=-mod=mod GOPROXY=off GOSUMDB=off GOTOOLCHAIN=local go test -vet=off -count=1 -timeout 25m ./...",
            "source_commits": hook_commits,
            "add_only": True,
        },
        "engines": [{"name": "vcheck", "path": "cmd/vcheck", "serves_properties": sorted(CHECKS), "kind_free_text": "Go driver: seeded generators, reference-model / boundary / metamorphic monitors over real executions of /repo/pkg/go; go test -race packages under racetests/"}],
        "checks": [],
        "not_applicable": [],
        "notes": "All checks: ./check <ID> <quick|thorough>; exit 0 held / exit 1 with VIOLATION line; KNOWN-FINDING lines for entries of KNOWN_FINDINGS.txt; evidence rewritten on every run.",
    }
    for p in props:
        if p in CHECKS:
            c = CHECKS[p]
            m["checks"].append({
                "property_id": p,
                "quick_cmd": f"./check {p} quick",
                "thorough_cmd": f"./check {p} thorough",
                "evidence_file": f"/verif/evidence/{p}.json",
                "replay_cmd_template": f"./check {p} --replay {{path}}",
                "engine": "vcheck",
                "level_claimed": {"category": c["cat"], "text": c["text"], "design_ref": "DESIGN.md section " + c["ref"]},
                "level_note": c["note"],
                "technique": "runtime monitoring: " + c["tech"],
            })
        else:
            m["not_applicable"].append({"property_id": p, "reason": REASON_PENDING})
    json.dump(m, open(os.path.join(ROOT, "MANIFEST.json"), "w"), indent=1)
    print("checks:", len(m["checks"]), "pending:", len(m["not_applicable"]))

main()
