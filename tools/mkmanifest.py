#!/usr/bin/env python3
"""Regenerates /verif/MANIFEST.json from the table below (kept next to the code so it stays current)."""
import json, os, subprocess, sys

ROOT = os.path.dirname(os.path.dirname(os.path.abspath(__file__)))

CHECKS = {
 "C04": dict(cat="exploration", tech="reference-model monitor (fixpoint reach sets + longest walk) over real Build, repeated and under hook-enumerated start orders",
   text="Every node and edge weight map of every accepted build is compared with an independent reference model on 10^4-10^5 generated models x (repeated builds + enumerated depth-first start orders); held on what was observed, not a proof.",
   note="Trusted: reference model internal/ref/wgraph.go (~400 lines), generator constraints of DESIGN 7-b; hook VerifAssignWeightsInOrder repeats ~25 lines of AssignWeights (fidelity guarded, DESIGN 4).", ref="5/C04"),
 "C05": dict(cat="exploration", tech="verdict monitor vs. well-foundedness predicate under enumerated depth-first start orders (hook) and sampled map orders",
   text="Accept/reject verdict and error class of real Build and of every enumerated start order compared with the reference predicate on generated models with planted cycle hazards; exhaustive over start orders for models with <= 5 (quick) / 6 (thorough) non-terminal nodes.",
   note="Trusted: reference predicate in internal/ref/wgraph.go; start orders beyond the exhaustive bound and map orders inside the traversal are sampled.", ref="5/C05"),
 "C06": dict(cat="exploration", tech="metamorphic/schedule monitor: equality of outcome across start orders, rebuilds, type and operand permutations; Go race detector on concurrent builds",
   text="Outcome equality across enumerated start orders, repeated builds, permuted type definitions and commutative operands, plus 16 concurrent builds of one shared model under go test -race compared with the sequential result.",
   note="Race detector sees only interleavings that happened; canonical form names operators by position.", ref="5/C06"),
 "C10": dict(cat="exploration", tech="structural reference-model monitor (simultaneous walk) + input-snapshot monitor around Build",
   text="Real graph walked simultaneously with the reference structure (nodes, kinds, labels, edge order and kinds, tupleset labels, ordered condition sets) on generated models; model snapshotted before and compared after every Build.",
   note="Trusted: reference structure builder; operand de-duplication rules follow the property's anchors.", ref="5/C10"),
 "C11": dict(cat="exploration", tech="reference-model monitor: wildcard lists vs. plain reachability of T:* under enumerated start orders",
   text="Wildcard lists of every node and edge of every accepted build compared as sets (duplicates flagged) with reachability in the reference graph, under repeated builds and enumerated start orders.",
   note="Trusted: reference graph; order inside a wildcard list is not part of the property.", ref="5/C11"),
}

REASON_PENDING = "check under construction (see DESIGN.md section 5); not claimed until its machinery is committed"

def main():
    props = [json.loads(l)["id"] for l in open(os.path.join(ROOT, "properties.jsonl"))]
    try:
        hook_commits = subprocess.check_output(["git", "-C", "/repo", "log", "--format=%H", "--grep=^verif hooks", "HEAD"], text=True).split()
    except Exception:
        hook_commits = []
    m = {
        "version": 1,
        "setup_cmd": "./check setup",
        "hooks": {
            "guard": "verif",
            "enable": "go build -tags verif (Go build tag; the harness module replaces github.com/openfga/language/pkg/go by /repo/pkg/go, so every build compiles /repo's working tree)",
            "baseline_off_cmd": "cd /repo/pkg/go && GOFLAGS=-mod=mod GOPROXY=off GOSUMDB=off GOTOOLCHAIN=local go test -vet=off -count=1 -timeout 25m ./...",
            "source_commits": hook_commits,
            "add_only": True,
        },
        "engines": [{"name": "vcheck", "path": "cmd/vcheck", "serves_properties": sorted(CHECKS), "kind_free_text": "Go driver: seeded generators, reference-model / boundary / metamorphic monitors over real executions of /repo/pkg/go; go test -race packages under racetests/"}],
        "checks": [],
        "not_applicable": [],
        "notes": "All checks: ./check <ID> <quick|thorough>; exit 0 held / exit 1 with VIOLATION line; KNOWN-FINDING lines for entries of KNOWN_FINDINGS.txt; evidence rewritten on every run.",
    }
    for p in props:
        if p in CHECKS:
            c = CHECKS[p]
            m["checks"].append({
                "property_id": p,
                "quick_cmd": f"./check {p} quick",
                "thorough_cmd": f"./check {p} thorough",
                "evidence_file": f"/verif/evidence/{p}.json",
                "replay_cmd_template": f"./check {p} --replay {{path}}",
                "engine": "vcheck",
                "level_claimed": {"category": c["cat"], "text": c["text"], "design_ref": "DESIGN.md section " + c["ref"]},
                "level_note": c["note"],
                "technique": "runtime monitoring: " + c["tech"],
            })
        else:
            m["not_applicable"].append({"property_id": p, "reason": REASON_PENDING})
    json.dump(m, open(os.path.join(ROOT, "MANIFEST.json"), "w"), indent=1)
    print("checks:", len(m["checks"]), "pending:", len(m["not_applicable"]))

main()
