#!/usr/bin/env python3
"""store_seed8.py <agent> <i> <note>: round-8 (function sweep) seed from /tmp/seed8/out-<agent>; property and function are read from meta<i>.txt"""
import sys, os, shutil, glob, json, re
agent, i = sys.argv[1:3]
note = sys.argv[3] if len(sys.argv) > 3 else ""
src = f"/tmp/seed8/out-{agent}"
meta_txt = open(f"{src}/meta{i}.txt").read()
pid = re.search(r'PROPERTY:\s*(C\d\d)', meta_txt).group(1)
fn = (re.search(r'FUNCTION:\s*(.+)', meta_txt) or [None, "?"])[1].strip()
dst = f"/verif/seeded/{pid}-r8-{agent}{i}"
os.makedirs(dst, exist_ok=True)
shutil.copy(f"{src}/patch{i}.diff", f"{dst}/patch.diff")
for f in glob.glob(f"{src}/demo{i}*"):
    b = os.path.basename(f)
    shutil.copy(f, f"{dst}/{b}.txt" if b.endswith(".go") else f"{dst}/{b}")
lines = [l for l in meta_txt.splitlines()[2:] if l.strip()]
needs = " ".join(lines)[:300]
meta = {"property": pid, "round": 8, "function": fn,
 "origin": "independent sub-agent sweeping one source file function by function; given the texts of the properties anchored in that file and a scratch worktree (nothing from /verif)",
 "needs_to_manifest": needs, "author_notes": meta_txt,
 "confirmed": "tools/verify_seed.sh: demo passes on the clean tree, fails with the patch; repository suite passes with the patch",
 "checks_run": f"tools/mutant.sh seeded/{pid}-r8-{agent}{i}/patch.diff {pid} quick",
 "caught_by": [pid], "note": note}
json.dump(meta, open(f"{dst}/meta.json", "w"), indent=1)
print("stored", dst)
