#!/bin/sh
# tools/seed_eval.sh <Cxx> <i> [extra check ids...]  verify a seed from /tmp/seed/out-<Cxx> and run the checks against it
P=$1; I=$2; shift 2
D=${SEEDBASE:-/tmp/seed}/out-$P
DEMO=$(ls $D/demo${I}_test.go 2>/dev/null)
PKG=$(grep -m1 -oE "pkg/go/[a-z]+" $DEMO | head -1)
RUN=$(grep -o 'func Test[A-Za-z0-9_]*' $DEMO | sed 's/func //' | tr '\n' '|' | sed 's/|$//')
echo "##### $P mutant $I (pkg $PKG, tests $RUN)"
/verif/tools/verify_seed.sh $D/patch$I.diff $DEMO $PKG "$RUN" 2>&1 | grep -E "^---|^ok|^FAIL|^--- FAIL|PATCH|panic:" | head -20
for C in $P "$@"; do
  echo "## check $C:"; /verif/tools/mutant.sh $D/patch$I.diff $C 2>&1 | grep -E "VIOLATION|class:|exit=|INCONC|KNOWN" | cut -c1-220 | head -8
done
