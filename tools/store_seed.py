#!/usr/bin/env python3
"""tools/store_seed.py <Cxx> <i> <caught_by comma list or 'none'> <needs text> [extra note]
Copies /tmp/seed/out-<Cxx>/{patch<i>.diff,demo<i>*,meta<i>.txt} into /verif/seeded/<Cxx>-<i>/ with a meta.json."""
import sys, os, shutil, glob, json
pid, i, caught, needs = sys.argv[1:5]
note = sys.argv[5] if len(sys.argv) > 5 else ""
src = f"/tmp/seed/out-{pid}"
dst = f"/verif/seeded/{pid}-{i}"
os.makedirs(dst, exist_ok=True)
shutil.copy(f"{src}/patch{i}.diff", f"{dst}/patch.diff")
for f in glob.glob(f"{src}/demo{i}*"):
    if os.path.isdir(f):
        shutil.copytree(f, f"{dst}/{os.path.basename(f)}", dirs_exist_ok=True)
    else:
        b = os.path.basename(f)
        # keep demos from being compiled as part of the harness module
        shutil.copy(f, f"{dst}/{b}.txt" if b.endswith(".go") else f"{dst}/{b}")
author = open(f"{src}/meta{i}.txt").read() if os.path.exists(f"{src}/meta{i}.txt") else ""
meta = {
    "property": pid,
    "origin": "independent sub-agent given only the property text and a scratch worktree",
    "needs_to_manifest": needs,
    "author_notes": author,
    "confirmed": "tools/verify_seed.sh: demo passes on the clean tree, fails with the patch; repository suite passes with the patch",
    "checks_run": f"tools/mutant.sh seeded/{pid}-{i}/patch.diff <ID> quick (scratch worktree of /repo HEAD with the patch applied)",
    "caught_by": [] if caught == "none" else caught.split(","),
    "note": note,
}
json.dump(meta, open(f"{dst}/meta.json", "w"), indent=1)
print("stored", dst)
