#!/bin/sh
# tools/mutant.sh <patch|-R:commit> <ID> [tier]   run one check against a scratch worktree of /repo with a patch applied.
# The worktree, its module file and the build output are removed afterwards; /repo itself is never touched.
set -u
PATCH=$1; ID=$2; TIER=${3:-quick}
ROOT=$(cd "$(dirname "$0")/.." && pwd)
export GOFLAGS=-mod=mod GOPROXY=off GOSUMDB=off GOTOOLCHAIN=local
WT=$(mktemp -d /tmp/vw.XXXXXX)
cleanup() { git -C /repo worktree remove --force "$WT" 2>/dev/null; rm -rf "$WT" "$WT.mod" "$WT.sum" "$WT.root"; git -C /repo worktree prune; }
trap cleanup EXIT INT TERM
git -C /repo worktree add -q --detach "$WT" HEAD || exit 2
case "$PATCH" in
  -R:*) git -C /repo show "${PATCH#-R:}" | git -C "$WT" apply -R || { echo "cannot revert"; exit 2; } ;;
  *) git -C "$WT" apply "$PATCH" || { echo "patch does not apply"; exit 2; } ;;
esac
sed "s#=> /repo/pkg/go#=> $WT/pkg/go#" "$ROOT/go.mod" > "$WT.mod"
cp "$ROOT/go.sum" "$WT.sum"
mkdir -p "$WT.root"
for f in KNOWN_FINDINGS.txt findings corpus; do [ -e "$ROOT/$f" ] && cp -r "$ROOT/$f" "$WT.root/"; done
cd "$ROOT" && go build -modfile="$WT.mod" -tags verif -o "$WT.root/vcheck" ./cmd/vcheck || { echo "build failed"; exit 2; }
VERIF_ROOT="$WT.root" VERIF_SRC="$ROOT" VERIF_MODFILE="$WT.mod" VERIF_REPO="$WT" "$WT.root/vcheck" -prop "$ID" -tier "$TIER"
rc=$?
echo "mutant run exit=$rc"
exit $rc
