#!/bin/sh
# tools/regress_seeds.sh [tier] [jobs]  runs every stored seeded change against the check of its property (scratch
# worktree) and prints one line per seed: CAUGHT / MISSED. Seeds marked void are skipped. VERIF_SEED is honoured.
TIER=${1:-quick}; JOBS=${2:-1}
cd "$(dirname "$0")/.."
one() {
  d=$1; TIER=$2
  case "$d" in
    *.diff) P=$d; ID=$(basename $d | cut -c1-3 | tr 'c' 'C');;
    *) P=$d/patch.diff; ID=$(basename $d | cut -c1-3);;
  esac
  OUT=$(tools/mutant.sh $PWD/$P $ID $TIER 2>&1)
  if echo "$OUT" | grep -q "^VIOLATION property=$ID"; then
    echo "CAUGHT $ID $d $(echo "$OUT" | grep -m1 'class:' | cut -c1-90)"
  else
    echo "MISSED $ID $d $(echo "$OUT" | grep -E 'INCONC|build failed|does not apply' | head -1 | cut -c1-120)"
  fi
}
if [ "${3:-}" = "--one" ]; then one "$4" "$TIER"; exit 0; fi
ls -d seeded/C*/ seeded/own/*.diff | grep -v "void\|uncaught" | xargs -P "$JOBS" -I{} "$0" "$TIER" "$JOBS" --one {}
